#!/bin/bash
# Offline setup: numpy (for the numpy rules' programs) into build/pydeps from the local wheelhouse.
cd "$(dirname "$0")"
mkdir -p build evidence replays
if [ ! -d build/pydeps/numpy ]; then
  /venv/bin/pip install --quiet --no-index --find-links /opt/veriftools/wheels --target build/pydeps numpy >/dev/null 2>&1 \
    || echo "numpy wheel not installable: numpy atoms will be skipped (counted as not admitted)"
fi
exit 0
