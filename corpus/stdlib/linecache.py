"""Cache lines from Python source files.

This is intended to read lines from modules imported -- hence if a filename
is not found, it will look down the module search path for a file by
that name.
"""

import functools
import sys
import os
import tokenize

__all__ = ["getline", "clearcache", "checkcache", "lazycache"]


# The cache. Maps filenames to either a thunk which will provide source code,
# or a tuple (size, mtime, lines, fullname) once loaded.
cache = {}


def clearcache():
    """Clear the cache entirely."""
    cache.clear()


def getline(filename, lineno, module_globals=None):
    """Get a line for a Python source file from the cache.
    Update the cache if it doesn't contain an entry for this file already."""

    lines = getlines(filename, module_globals)
    if 1 <= lineno <= len(lines):
        return lines[lineno - 1]
    return ''


def getlines(filename, module_globals=None):
    """Get the lines for a Python source file from the cache.
    Update the cache if it doesn't contain an entry for this file already."""

    if filename in cache:
        entry = cache[filename]
        if len(entry) != 1:
            return cache[filename][2]

    try:
        return updatecache(filename, module_globals)
    except MemoryError:
        clearcache()
        return []


def checkcache(filename=None):
    """Discard cache entries that are out of date.
    (This is not checked upon each call!)"""

    if filename is None:
        filenames = list(cache.keys())
    elif filename in cache:
        filenames = [filename]
    else:
        return

    for filename in filenames:
        entry = cache[filename]
        if len(entry) == 1:
            # lazy cache entry, leave it lazy.
            continue
        size, mtime, lines, fullname = entry
        if mtime is None:
            continue   # no-op for files loaded via a __loader__
        try:
            stat = os.stat(fullname)
        except OSError:
            cache.pop(filename, None)
            continue
        if size != stat.st_size or mtime != stat.st_mtime:
            cache.pop(filename, None)


def updatecache(filename, module_globals=None):
    """Update a cache entry and return its list of lines.
    If something's wrong, print a message, discard the cache entry,
    and return an empty list."""

    if filename in cache:
        if len(cache[filename]) != 1:
            cache.pop(filename, None)
    if not filename or (filename.startswith('<') and filename.endswith('>')):
        return []

    fullname = filename
    try:
        stat = os.stat(fullname)
    except OSError:
        basename = filename

        # Realise a lazy loader based lookup if there is one
        # otherwise try to lookup right now.
        if lazycache(filename, module_globals):
            try:
                data = cache[filename][0]()
            except (ImportError, OSError):
                pass
            else:
                if data is None:
                    # No luck, the PEP302 loader cannot find the source
                    # for this module.
                    return []
                cache[filename] = (
                    len(data),
                    None,
                    [line + '\n' for line in data.splitlines()],
                    fullname
                )
                return cache[filename][2]

        # Try looking through the module search path, which is only useful
        # when handling a relative filename.
        if os.path.isabs(filename):
            return []

        for dirname in sys.path:
            try:
                fullname = os.path.join(dirname, basename)
            except (TypeError, AttributeError):
                # Not sufficiently string-like to do anything useful with.
                continue
            try:
                stat = os.stat(fullname)
                break
            except OSError:
                pass
        else:
            return []
    try:
        with tokenize.open(fullname) as fp:
            lines = fp.readlines()
    except (OSError, UnicodeDecodeError, SyntaxError):
        return []
    if lines and not lines[-1].endswith('\n'):
        lines[-1] += '\n'
    size, mtime = stat.st_size, stat.st_mtime
    cache[filename] = size, mtime, lines, fullname
    return lines


def lazycache(filename, module_globals):
    """Seed the cache for filename with module_globals.

    The module loader will be asked for the source only when getlines is
    called, not immediately.

    If there is an entry in the cache already, it is not altered.

    :return: True if a lazy load is registered in the cache,
        otherwise False. To register such a load a module loader with a
        get_source method must be found, the filename must be a cacheable
        filename, and the filename must not be already cached.
    """
    if filename in cache:
        if len(cache[filename]) == 1:
            return True
        else:
            return False
    if not filename or (filename.startswith('<') and filename.endswith('>')):
        return False
    # Try for a __loader__, if available
    if module_globals and '__name__' in module_globals:
        name = module_globals['__name__']
        if (loader := module_globals.get('__loader__')) is None:
            if spec := module_globals.get('__spec__'):
                try:
                    loader = spec.loader
                except AttributeError:
                    pass
        get_source = getattr(loader, 'get_source', None)

        if name and get_source:
            get_lines = functools.partial(get_source, name)
            cache[filename] = (get_lines,)
            return True
    return False
