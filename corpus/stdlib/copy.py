"""Generic (shallow and deep) copying operations.

Interface summary:

        import copy

        x = copy.copy(y)        # make a shallow copy of y
        x = copy.deepcopy(y)    # make a deep copy of y

For module specific errors, copy.Error is raised.

The difference between shallow and deep copying is only relevant for
compound objects (objects that contain other objects, like lists or
class instances).

- A shallow copy constructs a new compound object and then (to the
  extent possible) inserts *the same objects* into it that the
  original contains.

- A deep copy constructs a new compound object and then, recursively,
  inserts *copies* into it of the objects found in the original.

Two problems often exist with deep copy operations that don't exist
with shallow copy operations:

 a) recursive objects (compound objects that, directly or indirectly,
    contain a reference to themselves) may cause a recursive loop

 b) because deep copy copies *everything* it may copy too much, e.g.
    administrative data structures that should be shared even between
    copies

Python's deep copy operation avoids these problems by:

 a) keeping a table of objects already copied during the current
    copying pass

 b) letting user-defined classes override the copying operation or the
    set of components copied

This version does not copy types like module, class, function, method,
nor stack trace, stack frame, nor file, socket, window, nor any
similar types.

Classes can use the same interfaces to control copying that they use
to control pickling: they can define methods called __getinitargs__(),
__getstate__() and __setstate__().  See the documentation for module
"pickle" for information on these methods.
"""

import types
import weakref
from copyreg import dispatch_table

class Error(Exception):
    pass
error = Error   # backward compatibility

__all__ = ["Error", "copy", "deepcopy"]

def copy(x):
    """Shallow copy operation on arbitrary Python objects.

    See the module's __doc__ string for more info.
    """

    cls = type(x)

    copier = _copy_dispatch.get(cls)
    if copier:
        return copier(x)

    if issubclass(cls, type):
        # treat it as a regular class:
        return _copy_immutable(x)

    copier = getattr(cls, "__copy__", None)
    if copier is not None:
        return copier(x)

    reductor = dispatch_table.get(cls)
    if reductor is not None:
        rv = reductor(x)
    else:
        reductor = getattr(x, "__reduce_ex__", None)
        if reductor is not None:
            rv = reductor(4)
        else:
            reductor = getattr(x, "__reduce__", None)
            if reductor:
                rv = reductor()
            else:
                raise Error("un(shallow)copyable object of type %s" % cls)

    if isinstance(rv, str):
        return x
    return _reconstruct(x, None, *rv)


_copy_dispatch = d = {}

def _copy_immutable(x):
    return x
for t in (types.NoneType, int, float, bool, complex, str, tuple,
          bytes, frozenset, type, range, slice, property,
          types.BuiltinFunctionType, types.EllipsisType,
          types.NotImplementedType, types.FunctionType, types.CodeType,
          weakref.ref):
    d[t] = _copy_immutable

d[list] = list.copy
d[dict] = dict.copy
d[set] = set.copy
d[bytearray] = bytearray.copy

del d, t

def deepcopy(x, memo=None, _nil=[]):
    """Deep copy operation on arbitrary Python objects.

    See the module's __doc__ string for more info.
    """

    if memo is None:
        memo = {}

    d = id(x)
    y = memo.get(d, _nil)
    if y is not _nil:
        return y

    cls = type(x)

    copier = _deepcopy_dispatch.get(cls)
    if copier is not None:
        y = copier(x, memo)
    else:
        if issubclass(cls, type):
            y = _deepcopy_atomic(x, memo)
        else:
            copier = getattr(x, "__deepcopy__", None)
            if copier is not None:
                y = copier(memo)
            else:
                reductor = dispatch_table.get(cls)
                if reductor:
                    rv = reductor(x)
                else:
                    reductor = getattr(x, "__reduce_ex__", None)
                    if reductor is not None:
                        rv = reductor(4)
                    else:
                        reductor = getattr(x, "__reduce__", None)
                        if reductor:
                            rv = reductor()
                        else:
                            raise Error(
                                "un(deep)copyable object of type %s" % cls)
                if isinstance(rv, str):
                    y = x
                else:
                    y = _reconstruct(x, memo, *rv)

    # If is its own copy, don't memoize.
    if y is not x:
        memo[d] = y
        _keep_alive(x, memo) # Make sure x lives at least as long as d
    return y

_deepcopy_dispatch = d = {}

def _deepcopy_atomic(x, memo):
    return x
d[types.NoneType] = _deepcopy_atomic
d[types.EllipsisType] = _deepcopy_atomic
d[types.NotImplementedType] = _deepcopy_atomic
d[int] = _deepcopy_atomic
d[float] = _deepcopy_atomic
d[bool] = _deepcopy_atomic
d[complex] = _deepcopy_atomic
d[bytes] = _deepcopy_atomic
d[str] = _deepcopy_atomic
d[types.CodeType] = _deepcopy_atomic
d[type] = _deepcopy_atomic
d[range] = _deepcopy_atomic
d[types.BuiltinFunctionType] = _deepcopy_atomic
d[types.FunctionType] = _deepcopy_atomic
d[weakref.ref] = _deepcopy_atomic
d[property] = _deepcopy_atomic

def _deepcopy_list(x, memo, deepcopy=deepcopy):
    y = []
    memo[id(x)] = y
    append = y.append
    for a in x:
        append(deepcopy(a, memo))
    return y
d[list] = _deepcopy_list

def _deepcopy_tuple(x, memo, deepcopy=deepcopy):
    y = [deepcopy(a, memo) for a in x]
    # We're not going to put the tuple in the memo, but it's still important we
    # check for it, in case the tuple contains recursive mutable structures.
    try:
        return memo[id(x)]
    except KeyError:
        pass
    for k, j in zip(x, y):
        if k is not j:
            y = tuple(y)
            break
    else:
        y = x
    return y
d[tuple] = _deepcopy_tuple

def _deepcopy_dict(x, memo, deepcopy=deepcopy):
    y = {}
    memo[id(x)] = y
    for key, value in x.items():
        y[deepcopy(key, memo)] = deepcopy(value, memo)
    return y
d[dict] = _deepcopy_dict

def _deepcopy_method(x, memo): # Copy instance methods
    return type(x)(x.__func__, deepcopy(x.__self__, memo))
d[types.MethodType] = _deepcopy_method

del d

def _keep_alive(x, memo):
    """Keeps a reference to the object x in the memo.

    Because we remember objects by their id, we have
    to assure that possibly temporary objects are kept
    alive by referencing them.
    We store a reference at the id of the memo, which should
    normally not be used unless someone tries to deepcopy
    the memo itself...
    """
    try:
        memo[id(memo)].append(x)
    except KeyError:
        # aha, this is the first one :-)
        memo[id(memo)]=[x]

def _reconstruct(x, memo, func, args,
                 state=None, listiter=None, dictiter=None,
                 *, deepcopy=deepcopy):
    deep = memo is not None
    if deep and args:
        args = (deepcopy(arg, memo) for arg in args)
    y = func(*args)
    if deep:
        memo[id(x)] = y

    if state is not None:
        if deep:
            state = deepcopy(state, memo)
        if hasattr(y, '__setstate__'):
            y.__setstate__(state)
        else:
            if isinstance(state, tuple) and len(state) == 2:
                state, slotstate = state
            else:
                slotstate = None
            if state is not None:
                y.__dict__.update(state)
            if slotstate is not None:
                for key, value in slotstate.items():
                    setattr(y, key, value)

    if listiter is not None:
        if deep:
            for item in listiter:
                item = deepcopy(item, memo)
                y.append(item)
        else:
            for item in listiter:
                y.append(item)
    if dictiter is not None:
        if deep:
            for key, value in dictiter:
                key = deepcopy(key, memo)
                value = deepcopy(value, memo)
                y[key] = value
        else:
            for key, value in dictiter:
                y[key] = value
    return y

del types, weakref
