"""Redo the builtin repr() (representation) but with limits on most sizes."""

__all__ = ["Repr", "repr", "recursive_repr"]

import builtins
from itertools import islice
from _thread import get_ident

def recursive_repr(fillvalue='...'):
    'Decorator to make a repr function return fillvalue for a recursive call'

    def decorating_function(user_function):
        repr_running = set()

        def wrapper(self):
            key = id(self), get_ident()
            if key in repr_running:
                return fillvalue
            repr_running.add(key)
            try:
                result = user_function(self)
            finally:
                repr_running.discard(key)
            return result

        # Can't use functools.wraps() here because of bootstrap issues
        wrapper.__module__ = getattr(user_function, '__module__')
        wrapper.__doc__ = getattr(user_function, '__doc__')
        wrapper.__name__ = getattr(user_function, '__name__')
        wrapper.__qualname__ = getattr(user_function, '__qualname__')
        wrapper.__annotations__ = getattr(user_function, '__annotations__', {})
        wrapper.__type_params__ = getattr(user_function, '__type_params__', ())
        return wrapper

    return decorating_function

class Repr:

    def __init__(
        self, *, maxlevel=6, maxtuple=6, maxlist=6, maxarray=5, maxdict=4,
        maxset=6, maxfrozenset=6, maxdeque=6, maxstring=30, maxlong=40,
        maxother=30, fillvalue='...', indent=None,
    ):
        self.maxlevel = maxlevel
        self.maxtuple = maxtuple
        self.maxlist = maxlist
        self.maxarray = maxarray
        self.maxdict = maxdict
        self.maxset = maxset
        self.maxfrozenset = maxfrozenset
        self.maxdeque = maxdeque
        self.maxstring = maxstring
        self.maxlong = maxlong
        self.maxother = maxother
        self.fillvalue = fillvalue
        self.indent = indent

    def repr(self, x):
        return self.repr1(x, self.maxlevel)

    def repr1(self, x, level):
        typename = type(x).__name__
        if ' ' in typename:
            parts = typename.split()
            typename = '_'.join(parts)
        if hasattr(self, 'repr_' + typename):
            return getattr(self, 'repr_' + typename)(x, level)
        else:
            return self.repr_instance(x, level)

    def _join(self, pieces, level):
        if self.indent is None:
            return ', '.join(pieces)
        if not pieces:
            return ''
        indent = self.indent
        if isinstance(indent, int):
            if indent < 0:
                raise ValueError(
                    f'Repr.indent cannot be negative int (was {indent!r})'
                )
            indent *= ' '
        try:
            sep = ',\n' + (self.maxlevel - level + 1) * indent
        except TypeError as error:
            raise TypeError(
                f'Repr.indent must be a str, int or None, not {type(indent)}'
            ) from error
        return sep.join(('', *pieces, ''))[1:-len(indent) or None]

    def _repr_iterable(self, x, level, left, right, maxiter, trail=''):
        n = len(x)
        if level <= 0 and n:
            s = self.fillvalue
        else:
            newlevel = level - 1
            repr1 = self.repr1
            pieces = [repr1(elem, newlevel) for elem in islice(x, maxiter)]
            if n > maxiter:
                pieces.append(self.fillvalue)
            s = self._join(pieces, level)
            if n == 1 and trail and self.indent is None:
                right = trail + right
        return '%s%s%s' % (left, s, right)

    def repr_tuple(self, x, level):
        return self._repr_iterable(x, level, '(', ')', self.maxtuple, ',')

    def repr_list(self, x, level):
        return self._repr_iterable(x, level, '[', ']', self.maxlist)

    def repr_array(self, x, level):
        if not x:
            return "array('%s')" % x.typecode
        header = "array('%s', [" % x.typecode
        return self._repr_iterable(x, level, header, '])', self.maxarray)

    def repr_set(self, x, level):
        if not x:
            return 'set()'
        x = _possibly_sorted(x)
        return self._repr_iterable(x, level, '{', '}', self.maxset)

    def repr_frozenset(self, x, level):
        if not x:
            return 'frozenset()'
        x = _possibly_sorted(x)
        return self._repr_iterable(x, level, 'frozenset({', '})',
                                   self.maxfrozenset)

    def repr_deque(self, x, level):
        return self._repr_iterable(x, level, 'deque([', '])', self.maxdeque)

    def repr_dict(self, x, level):
        n = len(x)
        if n == 0:
            return '{}'
        if level <= 0:
            return '{' + self.fillvalue + '}'
        newlevel = level - 1
        repr1 = self.repr1
        pieces = []
        for key in islice(_possibly_sorted(x), self.maxdict):
            keyrepr = repr1(key, newlevel)
            valrepr = repr1(x[key], newlevel)
            pieces.append('%s: %s' % (keyrepr, valrepr))
        if n > self.maxdict:
            pieces.append(self.fillvalue)
        s = self._join(pieces, level)
        return '{%s}' % (s,)

    def repr_str(self, x, level):
        s = builtins.repr(x[:self.maxstring])
        if len(s) > self.maxstring:
            i = max(0, (self.maxstring-3)//2)
            j = max(0, self.maxstring-3-i)
            s = builtins.repr(x[:i] + x[len(x)-j:])
            s = s[:i] + self.fillvalue + s[len(s)-j:]
        return s

    def repr_int(self, x, level):
        s = builtins.repr(x) # XXX Hope this isn't too slow...
        if len(s) > self.maxlong:
            i = max(0, (self.maxlong-3)//2)
            j = max(0, self.maxlong-3-i)
            s = s[:i] + self.fillvalue + s[len(s)-j:]
        return s

    def repr_instance(self, x, level):
        try:
            s = builtins.repr(x)
            # Bugs in x.__repr__() can cause arbitrary
            # exceptions -- then make up something
        except Exception:
            return '<%s instance at %#x>' % (x.__class__.__name__, id(x))
        if len(s) > self.maxother:
            i = max(0, (self.maxother-3)//2)
            j = max(0, self.maxother-3-i)
            s = s[:i] + self.fillvalue + s[len(s)-j:]
        return s


def _possibly_sorted(x):
    # Since not all sequences of items can be sorted and comparison
    # functions may raise arbitrary exceptions, return an unsorted
    # sequence in that case.
    try:
        return sorted(x)
    except Exception:
        return list(x)

aRepr = Repr()
repr = aRepr.repr
