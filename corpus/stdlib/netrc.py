"""An object-oriented interface to .netrc files."""

# Module and documentation by Eric S. Raymond, 21 Dec 1998

import os, stat

__all__ = ["netrc", "NetrcParseError"]


class NetrcParseError(Exception):
    """Exception raised on syntax errors in the .netrc file."""
    def __init__(self, msg, filename=None, lineno=None):
        self.filename = filename
        self.lineno = lineno
        self.msg = msg
        Exception.__init__(self, msg)

    def __str__(self):
        return "%s (%s, line %s)" % (self.msg, self.filename, self.lineno)


class _netrclex:
    def __init__(self, fp):
        self.lineno = 1
        self.instream = fp
        self.whitespace = "\n\t\r "
        self.pushback = []

    def _read_char(self):
        ch = self.instream.read(1)
        if ch == "\n":
            self.lineno += 1
        return ch

    def get_token(self):
        if self.pushback:
            return self.pushback.pop(0)
        token = ""
        fiter = iter(self._read_char, "")
        for ch in fiter:
            if ch in self.whitespace:
                continue
            if ch == '"':
                for ch in fiter:
                    if ch == '"':
                        return token
                    elif ch == "\\":
                        ch = self._read_char()
                    token += ch
            else:
                if ch == "\\":
                    ch = self._read_char()
                token += ch
                for ch in fiter:
                    if ch in self.whitespace:
                        return token
                    elif ch == "\\":
                        ch = self._read_char()
                    token += ch
        return token

    def push_token(self, token):
        self.pushback.append(token)


class netrc:
    def __init__(self, file=None):
        default_netrc = file is None
        if file is None:
            file = os.path.join(os.path.expanduser("~"), ".netrc")
        self.hosts = {}
        self.macros = {}
        try:
            with open(file, encoding="utf-8") as fp:
                self._parse(file, fp, default_netrc)
        except UnicodeDecodeError:
            with open(file, encoding="locale") as fp:
                self._parse(file, fp, default_netrc)

    def _parse(self, file, fp, default_netrc):
        lexer = _netrclex(fp)
        while 1:
            # Look for a machine, default, or macdef top-level keyword
            saved_lineno = lexer.lineno
            toplevel = tt = lexer.get_token()
            if not tt:
                break
            elif tt[0] == '#':
                if lexer.lineno == saved_lineno and len(tt) == 1:
                    lexer.instream.readline()
                continue
            elif tt == 'machine':
                entryname = lexer.get_token()
            elif tt == 'default':
                entryname = 'default'
            elif tt == 'macdef':
                entryname = lexer.get_token()
                self.macros[entryname] = []
                while 1:
                    line = lexer.instream.readline()
                    if not line:
                        raise NetrcParseError(
                            "Macro definition missing null line terminator.",
                            file, lexer.lineno)
                    if line == '\n':
                        # a macro definition finished with consecutive new-line
                        # characters. The first \n is encountered by the
                        # readline() method and this is the second \n.
                        break
                    self.macros[entryname].append(line)
                continue
            else:
                raise NetrcParseError(
                    "bad toplevel token %r" % tt, file, lexer.lineno)

            if not entryname:
                raise NetrcParseError("missing %r name" % tt, file, lexer.lineno)

            # We're looking at start of an entry for a named machine or default.
            login = account = password = ''
            self.hosts[entryname] = {}
            while 1:
                prev_lineno = lexer.lineno
                tt = lexer.get_token()
                if tt.startswith('#'):
                    if lexer.lineno == prev_lineno:
                        lexer.instream.readline()
                    continue
                if tt in {'', 'machine', 'default', 'macdef'}:
                    self.hosts[entryname] = (login, account, password)
                    lexer.push_token(tt)
                    break
                elif tt == 'login' or tt == 'user':
                    login = lexer.get_token()
                elif tt == 'account':
                    account = lexer.get_token()
                elif tt == 'password':
                    password = lexer.get_token()
                else:
                    raise NetrcParseError("bad follower token %r" % tt,
                                          file, lexer.lineno)
            self._security_check(fp, default_netrc, self.hosts[entryname][0])

    def _security_check(self, fp, default_netrc, login):
        if os.name == 'posix' and default_netrc and login != "anonymous":
            prop = os.fstat(fp.fileno())
            if prop.st_uid != os.getuid():
                import pwd
                try:
                    fowner = pwd.getpwuid(prop.st_uid)[0]
                except KeyError:
                    fowner = 'uid %s' % prop.st_uid
                try:
                    user = pwd.getpwuid(os.getuid())[0]
                except KeyError:
                    user = 'uid %s' % os.getuid()
                raise NetrcParseError(
                    (f"~/.netrc file owner ({fowner}, {user}) does not match"
                     " current user"))
            if (prop.st_mode & (stat.S_IRWXG | stat.S_IRWXO)):
                raise NetrcParseError(
                    "~/.netrc access too permissive: access"
                    " permissions must restrict access to only"
                    " the owner")

    def authenticators(self, host):
        """Return a (user, account, password) tuple for given host."""
        if host in self.hosts:
            return self.hosts[host]
        elif 'default' in self.hosts:
            return self.hosts['default']
        else:
            return None

    def __repr__(self):
        """Dump the class data in the format of a .netrc file."""
        rep = ""
        for host in self.hosts.keys():
            attrs = self.hosts[host]
            rep += f"machine {host}\n\tlogin {attrs[0]}\n"
            if attrs[1]:
                rep += f"\taccount {attrs[1]}\n"
            rep += f"\tpassword {attrs[2]}\n"
        for macro in self.macros.keys():
            rep += f"macdef {macro}\n"
            for line in self.macros[macro]:
                rep += line
            rep += "\n"
        return rep

if __name__ == '__main__':
    print(netrc())
