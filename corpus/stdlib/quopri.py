#! /usr/bin/env python3

"""Conversions to/from quoted-printable transport encoding as per RFC 1521."""

# (Dec 1991 version).

__all__ = ["encode", "decode", "encodestring", "decodestring"]

ESCAPE = b'='
MAXLINESIZE = 76
HEX = b'0123456789ABCDEF'
EMPTYSTRING = b''

try:
    from binascii import a2b_qp, b2a_qp
except ImportError:
    a2b_qp = None
    b2a_qp = None


def needsquoting(c, quotetabs, header):
    """Decide whether a particular byte ordinal needs to be quoted.

    The 'quotetabs' flag indicates whether embedded tabs and spaces should be
    quoted.  Note that line-ending tabs and spaces are always encoded, as per
    RFC 1521.
    """
    assert isinstance(c, bytes)
    if c in b' \t':
        return quotetabs
    # if header, we have to escape _ because _ is used to escape space
    if c == b'_':
        return header
    return c == ESCAPE or not (b' ' <= c <= b'~')

def quote(c):
    """Quote a single character."""
    assert isinstance(c, bytes) and len(c)==1
    c = ord(c)
    return ESCAPE + bytes((HEX[c//16], HEX[c%16]))



def encode(input, output, quotetabs, header=False):
    """Read 'input', apply quoted-printable encoding, and write to 'output'.

    'input' and 'output' are binary file objects. The 'quotetabs' flag
    indicates whether embedded tabs and spaces should be quoted. Note that
    line-ending tabs and spaces are always encoded, as per RFC 1521.
    The 'header' flag indicates whether we are encoding spaces as _ as per RFC
    1522."""

    if b2a_qp is not None:
        data = input.read()
        odata = b2a_qp(data, quotetabs=quotetabs, header=header)
        output.write(odata)
        return

    def write(s, output=output, lineEnd=b'\n'):
        # RFC 1521 requires that the line ending in a space or tab must have
        # that trailing character encoded.
        if s and s[-1:] in b' \t':
            output.write(s[:-1] + quote(s[-1:]) + lineEnd)
        elif s == b'.':
            output.write(quote(s) + lineEnd)
        else:
            output.write(s + lineEnd)

    prevline = None
    while line := input.readline():
        outline = []
        # Strip off any readline induced trailing newline
        stripped = b''
        if line[-1:] == b'\n':
            line = line[:-1]
            stripped = b'\n'
        # Calculate the un-length-limited encoded line
        for c in line:
            c = bytes((c,))
            if needsquoting(c, quotetabs, header):
                c = quote(c)
            if header and c == b' ':
                outline.append(b'_')
            else:
                outline.append(c)
        # First, write out the previous line
        if prevline is not None:
            write(prevline)
        # Now see if we need any soft line breaks because of RFC-imposed
        # length limitations.  Then do the thisline->prevline dance.
        thisline = EMPTYSTRING.join(outline)
        while len(thisline) > MAXLINESIZE:
            # Don't forget to include the soft line break `=' sign in the
            # length calculation!
            write(thisline[:MAXLINESIZE-1], lineEnd=b'=\n')
            thisline = thisline[MAXLINESIZE-1:]
        # Write out the current line
        prevline = thisline
    # Write out the last line, without a trailing newline
    if prevline is not None:
        write(prevline, lineEnd=stripped)

def encodestring(s, quotetabs=False, header=False):
    if b2a_qp is not None:
        return b2a_qp(s, quotetabs=quotetabs, header=header)
    from io import BytesIO
    infp = BytesIO(s)
    outfp = BytesIO()
    encode(infp, outfp, quotetabs, header)
    return outfp.getvalue()



def decode(input, output, header=False):
    """Read 'input', apply quoted-printable decoding, and write to 'output'.
    'input' and 'output' are binary file objects.
    If 'header' is true, decode underscore as space (per RFC 1522)."""

    if a2b_qp is not None:
        data = input.read()
        odata = a2b_qp(data, header=header)
        output.write(odata)
        return

    new = b''
    while line := input.readline():
        i, n = 0, len(line)
        if n > 0 and line[n-1:n] == b'\n':
            partial = 0; n = n-1
            # Strip trailing whitespace
            while n > 0 and line[n-1:n] in b" \t\r":
                n = n-1
        else:
            partial = 1
        while i < n:
            c = line[i:i+1]
            if c == b'_' and header:
                new = new + b' '; i = i+1
            elif c != ESCAPE:
                new = new + c; i = i+1
            elif i+1 == n and not partial:
                partial = 1; break
            elif i+1 < n and line[i+1:i+2] == ESCAPE:
                new = new + ESCAPE; i = i+2
            elif i+2 < n and ishex(line[i+1:i+2]) and ishex(line[i+2:i+3]):
                new = new + bytes((unhex(line[i+1:i+3]),)); i = i+3
            else: # Bad escape sequence -- leave it in
                new = new + c; i = i+1
        if not partial:
            output.write(new + b'\n')
            new = b''
    if new:
        output.write(new)

def decodestring(s, header=False):
    if a2b_qp is not None:
        return a2b_qp(s, header=header)
    from io import BytesIO
    infp = BytesIO(s)
    outfp = BytesIO()
    decode(infp, outfp, header=header)
    return outfp.getvalue()



# Other helper functions
def ishex(c):
    """Return true if the byte ordinal 'c' is a hexadecimal digit in ASCII."""
    assert isinstance(c, bytes)
    return b'0' <= c <= b'9' or b'a' <= c <= b'f' or b'A' <= c <= b'F'

def unhex(s):
    """Get the integer value of a hexadecimal number."""
    bits = 0
    for c in s:
        c = bytes((c,))
        if b'0' <= c <= b'9':
            i = ord('0')
        elif b'a' <= c <= b'f':
            i = ord('a')-10
        elif b'A' <= c <= b'F':
            i = ord(b'A')-10
        else:
            assert False, "non-hex digit "+repr(c)
        bits = bits*16 + (ord(c) - i)
    return bits



def main():
    import sys
    import getopt
    try:
        opts, args = getopt.getopt(sys.argv[1:], 'td')
    except getopt.error as msg:
        sys.stdout = sys.stderr
        print(msg)
        print("usage: quopri [-t | -d] [file] ...")
        print("-t: quote tabs")
        print("-d: decode; default encode")
        sys.exit(2)
    deco = False
    tabs = False
    for o, a in opts:
        if o == '-t': tabs = True
        if o == '-d': deco = True
    if tabs and deco:
        sys.stdout = sys.stderr
        print("-t and -d are mutually exclusive")
        sys.exit(2)
    if not args: args = ['-']
    sts = 0
    for file in args:
        if file == '-':
            fp = sys.stdin.buffer
        else:
            try:
                fp = open(file, "rb")
            except OSError as msg:
                sys.stderr.write("%s: can't open (%s)\n" % (file, msg))
                sts = 1
                continue
        try:
            if deco:
                decode(fp, sys.stdout.buffer)
            else:
                encode(fp, sys.stdout.buffer, tabs)
        finally:
            if file != '-':
                fp.close()
    if sts:
        sys.exit(sts)



if __name__ == '__main__':
    main()
