from types import GenericAlias

__all__ = ["TopologicalSorter", "CycleError"]

_NODE_OUT = -1
_NODE_DONE = -2


class _NodeInfo:
    __slots__ = "node", "npredecessors", "successors"

    def __init__(self, node):
        # The node this class is augmenting.
        self.node = node

        # Number of predecessors, generally >= 0. When this value falls to 0,
        # and is returned by get_ready(), this is set to _NODE_OUT and when the
        # node is marked done by a call to done(), set to _NODE_DONE.
        self.npredecessors = 0

        # List of successor nodes. The list can contain duplicated elements as
        # long as they're all reflected in the successor's npredecessors attribute.
        self.successors = []


class CycleError(ValueError):
    """Subclass of ValueError raised by TopologicalSorter.prepare if cycles
    exist in the working graph.

    If multiple cycles exist, only one undefined choice among them will be reported
    and included in the exception. The detected cycle can be accessed via the second
    element in the *args* attribute of the exception instance and consists in a list
    of nodes, such that each node is, in the graph, an immediate predecessor of the
    next node in the list. In the reported list, the first and the last node will be
    the same, to make it clear that it is cyclic.
    """

    pass


class TopologicalSorter:
    """Provides functionality to topologically sort a graph of hashable nodes"""

    def __init__(self, graph=None):
        self._node2info = {}
        self._ready_nodes = None
        self._npassedout = 0
        self._nfinished = 0

        if graph is not None:
            for node, predecessors in graph.items():
                self.add(node, *predecessors)

    def _get_nodeinfo(self, node):
        if (result := self._node2info.get(node)) is None:
            self._node2info[node] = result = _NodeInfo(node)
        return result

    def add(self, node, *predecessors):
        """Add a new node and its predecessors to the graph.

        Both the *node* and all elements in *predecessors* must be hashable.

        If called multiple times with the same node argument, the set of dependencies
        will be the union of all dependencies passed in.

        It is possible to add a node with no dependencies (*predecessors* is not provided)
        as well as provide a dependency twice. If a node that has not been provided before
        is included among *predecessors* it will be automatically added to the graph with
        no predecessors of its own.

        Raises ValueError if called after "prepare".
        """
        if self._ready_nodes is not None:
            raise ValueError("Nodes cannot be added after a call to prepare()")

        # Create the node -> predecessor edges
        nodeinfo = self._get_nodeinfo(node)
        nodeinfo.npredecessors += len(predecessors)

        # Create the predecessor -> node edges
        for pred in predecessors:
            pred_info = self._get_nodeinfo(pred)
            pred_info.successors.append(node)

    def prepare(self):
        """Mark the graph as finished and check for cycles in the graph.

        If any cycle is detected, "CycleError" will be raised, but "get_ready" can
        still be used to obtain as many nodes as possible until cycles block more
        progress. After a call to this function, the graph cannot be modified and
        therefore no more nodes can be added using "add".
        """
        if self._ready_nodes is not None:
            raise ValueError("cannot prepare() more than once")

        self._ready_nodes = [
            i.node for i in self._node2info.values() if i.npredecessors == 0
        ]
        # ready_nodes is set before we look for cycles on purpose:
        # if the user wants to catch the CycleError, that's fine,
        # they can continue using the instance to grab as many
        # nodes as possible before cycles block more progress
        cycle = self._find_cycle()
        if cycle:
            raise CycleError(f"nodes are in a cycle", cycle)

    def get_ready(self):
        """Return a tuple of all the nodes that are ready.

        Initially it returns all nodes with no predecessors; once those are marked
        as processed by calling "done", further calls will return all new nodes that
        have all their predecessors already processed. Once no more progress can be made,
        empty tuples are returned.

        Raises ValueError if called without calling "prepare" previously.
        """
        if self._ready_nodes is None:
            raise ValueError("prepare() must be called first")

        # Get the nodes that are ready and mark them
        result = tuple(self._ready_nodes)
        n2i = self._node2info
        for node in result:
            n2i[node].npredecessors = _NODE_OUT

        # Clean the list of nodes that are ready and update
        # the counter of nodes that we have returned.
        self._ready_nodes.clear()
        self._npassedout += len(result)

        return result

    def is_active(self):
        """Return ``True`` if more progress can be made and ``False`` otherwise.

        Progress can be made if cycles do not block the resolution and either there
        are still nodes ready that haven't yet been returned by "get_ready" or the
        number of nodes marked "done" is less than the number that have been returned
        by "get_ready".

        Raises ValueError if called without calling "prepare" previously.
        """
        if self._ready_nodes is None:
            raise ValueError("prepare() must be called first")
        return self._nfinished < self._npassedout or bool(self._ready_nodes)

    def __bool__(self):
        return self.is_active()

    def done(self, *nodes):
        """Marks a set of nodes returned by "get_ready" as processed.

        This method unblocks any successor of each node in *nodes* for being returned
        in the future by a call to "get_ready".

        Raises :exec:`ValueError` if any node in *nodes* has already been marked as
        processed by a previous call to this method, if a node was not added to the
        graph by using "add" or if called without calling "prepare" previously or if
        node has not yet been returned by "get_ready".
        """

        if self._ready_nodes is None:
            raise ValueError("prepare() must be called first")

        n2i = self._node2info

        for node in nodes:

            # Check if we know about this node (it was added previously using add()
            if (nodeinfo := n2i.get(node)) is None:
                raise ValueError(f"node {node!r} was not added using add()")

            # If the node has not being returned (marked as ready) previously, inform the user.
            stat = nodeinfo.npredecessors
            if stat != _NODE_OUT:
                if stat >= 0:
                    raise ValueError(
                        f"node {node!r} was not passed out (still not ready)"
                    )
                elif stat == _NODE_DONE:
                    raise ValueError(f"node {node!r} was already marked done")
                else:
                    assert False, f"node {node!r}: unknown status {stat}"

            # Mark the node as processed
            nodeinfo.npredecessors = _NODE_DONE

            # Go to all the successors and reduce the number of predecessors, collecting all the ones
            # that are ready to be returned in the next get_ready() call.
            for successor in nodeinfo.successors:
                successor_info = n2i[successor]
                successor_info.npredecessors -= 1
                if successor_info.npredecessors == 0:
                    self._ready_nodes.append(successor)
            self._nfinished += 1

    def _find_cycle(self):
        n2i = self._node2info
        stack = []
        itstack = []
        seen = set()
        node2stacki = {}

        for node in n2i:
            if node in seen:
                continue

            while True:
                if node in seen:
                    # If we have seen already the node and is in the
                    # current stack we have found a cycle.
                    if node in node2stacki:
                        return stack[node2stacki[node] :] + [node]
                    # else go on to get next successor
                else:
                    seen.add(node)
                    itstack.append(iter(n2i[node].successors).__next__)
                    node2stacki[node] = len(stack)
                    stack.append(node)

                # Backtrack to the topmost stack entry with
                # at least another successor.
                while stack:
                    try:
                        node = itstack[-1]()
                        break
                    except StopIteration:
                        del node2stacki[stack.pop()]
                        itstack.pop()
                else:
                    break
        return None

    def static_order(self):
        """Returns an iterable of nodes in a topological order.

        The particular order that is returned may depend on the specific
        order in which the items were inserted in the graph.

        Using this method does not require to call "prepare" or "done". If any
        cycle is detected, :exc:`CycleError` will be raised.
        """
        self.prepare()
        while self.is_active():
            node_group = self.get_ready()
            yield from node_group
            self.done(*node_group)

    __class_getitem__ = classmethod(GenericAlias)
