# Copyright 2007 Google, Inc. All Rights Reserved.
# Licensed to PSF under a Contributor Agreement.

"""Abstract Base Classes (ABCs) according to PEP 3119."""


def abstractmethod(funcobj):
    """A decorator indicating abstract methods.

    Requires that the metaclass is ABCMeta or derived from it.  A
    class that has a metaclass derived from ABCMeta cannot be
    instantiated unless all of its abstract methods are overridden.
    The abstract methods can be called using any of the normal
    'super' call mechanisms.  abstractmethod() may be used to declare
    abstract methods for properties and descriptors.

    Usage:

        class C(metaclass=ABCMeta):
            @abstractmethod
            def my_abstract_method(self, arg1, arg2, argN):
                ...
    """
    funcobj.__isabstractmethod__ = True
    return funcobj


class abstractclassmethod(classmethod):
    """A decorator indicating abstract classmethods.

    Deprecated, use 'classmethod' with 'abstractmethod' instead:

        class C(ABC):
            @classmethod
            @abstractmethod
            def my_abstract_classmethod(cls, ...):
                ...

    """

    __isabstractmethod__ = True

    def __init__(self, callable):
        callable.__isabstractmethod__ = True
        super().__init__(callable)


class abstractstaticmethod(staticmethod):
    """A decorator indicating abstract staticmethods.

    Deprecated, use 'staticmethod' with 'abstractmethod' instead:

        class C(ABC):
            @staticmethod
            @abstractmethod
            def my_abstract_staticmethod(...):
                ...

    """

    __isabstractmethod__ = True

    def __init__(self, callable):
        callable.__isabstractmethod__ = True
        super().__init__(callable)


class abstractproperty(property):
    """A decorator indicating abstract properties.

    Deprecated, use 'property' with 'abstractmethod' instead:

        class C(ABC):
            @property
            @abstractmethod
            def my_abstract_property(self):
                ...

    """

    __isabstractmethod__ = True


try:
    from _abc import (get_cache_token, _abc_init, _abc_register,
                      _abc_instancecheck, _abc_subclasscheck, _get_dump,
                      _reset_registry, _reset_caches)
except ImportError:
    from _py_abc import ABCMeta, get_cache_token
    ABCMeta.__module__ = 'abc'
else:
    class ABCMeta(type):
        """Metaclass for defining Abstract Base Classes (ABCs).

        Use this metaclass to create an ABC.  An ABC can be subclassed
        directly, and then acts as a mix-in class.  You can also register
        unrelated concrete classes (even built-in classes) and unrelated
        ABCs as 'virtual subclasses' -- these and their descendants will
        be considered subclasses of the registering ABC by the built-in
        issubclass() function, but the registering ABC won't show up in
        their MRO (Method Resolution Order) nor will method
        implementations defined by the registering ABC be callable (not
        even via super()).
        """
        def __new__(mcls, name, bases, namespace, /, **kwargs):
            cls = super().__new__(mcls, name, bases, namespace, **kwargs)
            _abc_init(cls)
            return cls

        def register(cls, subclass):
            """Register a virtual subclass of an ABC.

            Returns the subclass, to allow usage as a class decorator.
            """
            return _abc_register(cls, subclass)

        def __instancecheck__(cls, instance):
            """Override for isinstance(instance, cls)."""
            return _abc_instancecheck(cls, instance)

        def __subclasscheck__(cls, subclass):
            """Override for issubclass(subclass, cls)."""
            return _abc_subclasscheck(cls, subclass)

        def _dump_registry(cls, file=None):
            """Debug helper to print the ABC registry."""
            print(f"Class: {cls.__module__}.{cls.__qualname__}", file=file)
            print(f"Inv. counter: {get_cache_token()}", file=file)
            (_abc_registry, _abc_cache, _abc_negative_cache,
             _abc_negative_cache_version) = _get_dump(cls)
            print(f"_abc_registry: {_abc_registry!r}", file=file)
            print(f"_abc_cache: {_abc_cache!r}", file=file)
            print(f"_abc_negative_cache: {_abc_negative_cache!r}", file=file)
            print(f"_abc_negative_cache_version: {_abc_negative_cache_version!r}",
                  file=file)

        def _abc_registry_clear(cls):
            """Clear the registry (for debugging or testing)."""
            _reset_registry(cls)

        def _abc_caches_clear(cls):
            """Clear the caches (for debugging or testing)."""
            _reset_caches(cls)


def update_abstractmethods(cls):
    """Recalculate the set of abstract methods of an abstract class.

    If a class has had one of its abstract methods implemented after the
    class was created, the method will not be considered implemented until
    this function is called. Alternatively, if a new abstract method has been
    added to the class, it will only be considered an abstract method of the
    class after this function is called.

    This function should be called before any use is made of the class,
    usually in class decorators that add methods to the subject class.

    Returns cls, to allow usage as a class decorator.

    If cls is not an instance of ABCMeta, does nothing.
    """
    if not hasattr(cls, '__abstractmethods__'):
        # We check for __abstractmethods__ here because cls might by a C
        # implementation or a python implementation (especially during
        # testing), and we want to handle both cases.
        return cls

    abstracts = set()
    # Check the existing abstract methods of the parents, keep only the ones
    # that are not implemented.
    for scls in cls.__bases__:
        for name in getattr(scls, '__abstractmethods__', ()):
            value = getattr(cls, name, None)
            if getattr(value, "__isabstractmethod__", False):
                abstracts.add(name)
    # Also add any other newly added abstract methods.
    for name, value in cls.__dict__.items():
        if getattr(value, "__isabstractmethod__", False):
            abstracts.add(name)
    cls.__abstractmethods__ = frozenset(abstracts)
    return cls


class ABC(metaclass=ABCMeta):
    """Helper class that provides a standard way to create an ABC using
    inheritance.
    """
    __slots__ = ()
