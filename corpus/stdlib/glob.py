"""Filename globbing utility."""

import contextlib
import os
import re
import fnmatch
import itertools
import stat
import sys

__all__ = ["glob", "iglob", "escape"]

def glob(pathname, *, root_dir=None, dir_fd=None, recursive=False,
        include_hidden=False):
    """Return a list of paths matching a pathname pattern.

    The pattern may contain simple shell-style wildcards a la
    fnmatch. Unlike fnmatch, filenames starting with a
    dot are special cases that are not matched by '*' and '?'
    patterns by default.

    If `include_hidden` is true, the patterns '*', '?', '**'  will match hidden
    directories.

    If `recursive` is true, the pattern '**' will match any files and
    zero or more directories and subdirectories.
    """
    return list(iglob(pathname, root_dir=root_dir, dir_fd=dir_fd, recursive=recursive,
                      include_hidden=include_hidden))

def iglob(pathname, *, root_dir=None, dir_fd=None, recursive=False,
          include_hidden=False):
    """Return an iterator which yields the paths matching a pathname pattern.

    The pattern may contain simple shell-style wildcards a la
    fnmatch. However, unlike fnmatch, filenames starting with a
    dot are special cases that are not matched by '*' and '?'
    patterns.

    If recursive is true, the pattern '**' will match any files and
    zero or more directories and subdirectories.
    """
    sys.audit("glob.glob", pathname, recursive)
    sys.audit("glob.glob/2", pathname, recursive, root_dir, dir_fd)
    if root_dir is not None:
        root_dir = os.fspath(root_dir)
    else:
        root_dir = pathname[:0]
    it = _iglob(pathname, root_dir, dir_fd, recursive, False,
                include_hidden=include_hidden)
    if not pathname or recursive and _isrecursive(pathname[:2]):
        try:
            s = next(it)  # skip empty string
            if s:
                it = itertools.chain((s,), it)
        except StopIteration:
            pass
    return it

def _iglob(pathname, root_dir, dir_fd, recursive, dironly,
           include_hidden=False):
    dirname, basename = os.path.split(pathname)
    if not has_magic(pathname):
        assert not dironly
        if basename:
            if _lexists(_join(root_dir, pathname), dir_fd):
                yield pathname
        else:
            # Patterns ending with a slash should match only directories
            if _isdir(_join(root_dir, dirname), dir_fd):
                yield pathname
        return
    if not dirname:
        if recursive and _isrecursive(basename):
            yield from _glob2(root_dir, basename, dir_fd, dironly,
                             include_hidden=include_hidden)
        else:
            yield from _glob1(root_dir, basename, dir_fd, dironly,
                              include_hidden=include_hidden)
        return
    # `os.path.split()` returns the argument itself as a dirname if it is a
    # drive or UNC path.  Prevent an infinite recursion if a drive or UNC path
    # contains magic characters (i.e. r'\\?\C:').
    if dirname != pathname and has_magic(dirname):
        dirs = _iglob(dirname, root_dir, dir_fd, recursive, True,
                      include_hidden=include_hidden)
    else:
        dirs = [dirname]
    if has_magic(basename):
        if recursive and _isrecursive(basename):
            glob_in_dir = _glob2
        else:
            glob_in_dir = _glob1
    else:
        glob_in_dir = _glob0
    for dirname in dirs:
        for name in glob_in_dir(_join(root_dir, dirname), basename, dir_fd, dironly,
                               include_hidden=include_hidden):
            yield os.path.join(dirname, name)

# These 2 helper functions non-recursively glob inside a literal directory.
# They return a list of basenames.  _glob1 accepts a pattern while _glob0
# takes a literal basename (so it only has to check for its existence).

def _glob1(dirname, pattern, dir_fd, dironly, include_hidden=False):
    names = _listdir(dirname, dir_fd, dironly)
    if include_hidden or not _ishidden(pattern):
        names = (x for x in names if include_hidden or not _ishidden(x))
    return fnmatch.filter(names, pattern)

def _glob0(dirname, basename, dir_fd, dironly, include_hidden=False):
    if basename:
        if _lexists(_join(dirname, basename), dir_fd):
            return [basename]
    else:
        # `os.path.split()` returns an empty basename for paths ending with a
        # directory separator.  'q*x/' should match only directories.
        if _isdir(dirname, dir_fd):
            return [basename]
    return []

# Following functions are not public but can be used by third-party code.

def glob0(dirname, pattern):
    return _glob0(dirname, pattern, None, False)

def glob1(dirname, pattern):
    return _glob1(dirname, pattern, None, False)

# This helper function recursively yields relative pathnames inside a literal
# directory.

def _glob2(dirname, pattern, dir_fd, dironly, include_hidden=False):
    assert _isrecursive(pattern)
    yield pattern[:0]
    yield from _rlistdir(dirname, dir_fd, dironly,
                         include_hidden=include_hidden)

# If dironly is false, yields all file names inside a directory.
# If dironly is true, yields only directory names.
def _iterdir(dirname, dir_fd, dironly):
    try:
        fd = None
        fsencode = None
        if dir_fd is not None:
            if dirname:
                fd = arg = os.open(dirname, _dir_open_flags, dir_fd=dir_fd)
            else:
                arg = dir_fd
            if isinstance(dirname, bytes):
                fsencode = os.fsencode
        elif dirname:
            arg = dirname
        elif isinstance(dirname, bytes):
            arg = bytes(os.curdir, 'ASCII')
        else:
            arg = os.curdir
        try:
            with os.scandir(arg) as it:
                for entry in it:
                    try:
                        if not dironly or entry.is_dir():
                            if fsencode is not None:
                                yield fsencode(entry.name)
                            else:
                                yield entry.name
                    except OSError:
                        pass
        finally:
            if fd is not None:
                os.close(fd)
    except OSError:
        return

def _listdir(dirname, dir_fd, dironly):
    with contextlib.closing(_iterdir(dirname, dir_fd, dironly)) as it:
        return list(it)

# Recursively yields relative pathnames inside a literal directory.
def _rlistdir(dirname, dir_fd, dironly, include_hidden=False):
    names = _listdir(dirname, dir_fd, dironly)
    for x in names:
        if include_hidden or not _ishidden(x):
            yield x
            path = _join(dirname, x) if dirname else x
            for y in _rlistdir(path, dir_fd, dironly,
                               include_hidden=include_hidden):
                yield _join(x, y)


def _lexists(pathname, dir_fd):
    # Same as os.path.lexists(), but with dir_fd
    if dir_fd is None:
        return os.path.lexists(pathname)
    try:
        os.lstat(pathname, dir_fd=dir_fd)
    except (OSError, ValueError):
        return False
    else:
        return True

def _isdir(pathname, dir_fd):
    # Same as os.path.isdir(), but with dir_fd
    if dir_fd is None:
        return os.path.isdir(pathname)
    try:
        st = os.stat(pathname, dir_fd=dir_fd)
    except (OSError, ValueError):
        return False
    else:
        return stat.S_ISDIR(st.st_mode)

def _join(dirname, basename):
    # It is common if dirname or basename is empty
    if not dirname or not basename:
        return dirname or basename
    return os.path.join(dirname, basename)

magic_check = re.compile('([*?[])')
magic_check_bytes = re.compile(b'([*?[])')

def has_magic(s):
    if isinstance(s, bytes):
        match = magic_check_bytes.search(s)
    else:
        match = magic_check.search(s)
    return match is not None

def _ishidden(path):
    return path[0] in ('.', b'.'[0])

def _isrecursive(pattern):
    if isinstance(pattern, bytes):
        return pattern == b'**'
    else:
        return pattern == '**'

def escape(pathname):
    """Escape all special characters.
    """
    # Escaping is done by wrapping any of "*?[" between square brackets.
    # Metacharacters do not work in the drive part and shouldn't be escaped.
    drive, pathname = os.path.splitdrive(pathname)
    if isinstance(pathname, bytes):
        pathname = magic_check_bytes.sub(br'[\1]', pathname)
    else:
        pathname = magic_check.sub(r'[\1]', pathname)
    return drive + pathname


_dir_open_flags = os.O_RDONLY | getattr(os, 'O_DIRECTORY', 0)
