"""Bisection algorithms."""


def insort_right(a, x, lo=0, hi=None, *, key=None):
    """Insert item x in list a, and keep it sorted assuming a is sorted.

    If x is already in a, insert it to the right of the rightmost x.

    Optional args lo (default 0) and hi (default len(a)) bound the
    slice of a to be searched.

    A custom key function can be supplied to customize the sort order.
    """
    if key is None:
        lo = bisect_right(a, x, lo, hi)
    else:
        lo = bisect_right(a, key(x), lo, hi, key=key)
    a.insert(lo, x)


def bisect_right(a, x, lo=0, hi=None, *, key=None):
    """Return the index where to insert item x in list a, assuming a is sorted.

    The return value i is such that all e in a[:i] have e <= x, and all e in
    a[i:] have e > x.  So if x already appears in the list, a.insert(i, x) will
    insert just after the rightmost x already there.

    Optional args lo (default 0) and hi (default len(a)) bound the
    slice of a to be searched.

    A custom key function can be supplied to customize the sort order.
    """

    if lo < 0:
        raise ValueError('lo must be non-negative')
    if hi is None:
        hi = len(a)
    # Note, the comparison uses "<" to match the
    # __lt__() logic in list.sort() and in heapq.
    if key is None:
        while lo < hi:
            mid = (lo + hi) // 2
            if x < a[mid]:
                hi = mid
            else:
                lo = mid + 1
    else:
        while lo < hi:
            mid = (lo + hi) // 2
            if x < key(a[mid]):
                hi = mid
            else:
                lo = mid + 1
    return lo


def insort_left(a, x, lo=0, hi=None, *, key=None):
    """Insert item x in list a, and keep it sorted assuming a is sorted.

    If x is already in a, insert it to the left of the leftmost x.

    Optional args lo (default 0) and hi (default len(a)) bound the
    slice of a to be searched.

    A custom key function can be supplied to customize the sort order.
    """

    if key is None:
        lo = bisect_left(a, x, lo, hi)
    else:
        lo = bisect_left(a, key(x), lo, hi, key=key)
    a.insert(lo, x)

def bisect_left(a, x, lo=0, hi=None, *, key=None):
    """Return the index where to insert item x in list a, assuming a is sorted.

    The return value i is such that all e in a[:i] have e < x, and all e in
    a[i:] have e >= x.  So if x already appears in the list, a.insert(i, x) will
    insert just before the leftmost x already there.

    Optional args lo (default 0) and hi (default len(a)) bound the
    slice of a to be searched.

    A custom key function can be supplied to customize the sort order.
    """

    if lo < 0:
        raise ValueError('lo must be non-negative')
    if hi is None:
        hi = len(a)
    # Note, the comparison uses "<" to match the
    # __lt__() logic in list.sort() and in heapq.
    if key is None:
        while lo < hi:
            mid = (lo + hi) // 2
            if a[mid] < x:
                lo = mid + 1
            else:
                hi = mid
    else:
        while lo < hi:
            mid = (lo + hi) // 2
            if key(a[mid]) < x:
                lo = mid + 1
            else:
                hi = mid
    return lo


# Overwrite above definitions with a fast C implementation
try:
    from _bisect import *
except ImportError:
    pass

# Create aliases
bisect = bisect_right
insort = insort_right
