
import webbrowser
import hashlib

webbrowser.open("https://xkcd.com/353/")

def geohash(latitude, longitude, datedow):
    '''Compute geohash() using the Munroe algorithm.

    >>> geohash(37.421542, -122.085589, b'2005-05-26-10458.68')
    37.857713 -122.544543

    '''
    # https://xkcd.com/426/
    h = hashlib.md5(datedow, usedforsecurity=False).hexdigest()
    p, q = [('%f' % float.fromhex('0.' + x)) for x in (h[:16], h[16:32])]
    print('%d%s %d%s' % (latitude, p[1:], longitude, q[1:]))
