"""A generally useful event scheduler class.

Each instance of this class manages its own queue.
No multi-threading is implied; you are supposed to hack that
yourself, or use a single instance per application.

Each instance is parametrized with two functions, one that is
supposed to return the current time, one that is supposed to
implement a delay.  You can implement real-time scheduling by
substituting time and sleep from built-in module time, or you can
implement simulated time by writing your own functions.  This can
also be used to integrate scheduling with STDWIN events; the delay
function is allowed to modify the queue.  Time can be expressed as
integers or floating point numbers, as long as it is consistent.

Events are specified by tuples (time, priority, action, argument, kwargs).
As in UNIX, lower priority numbers mean higher priority; in this
way the queue can be maintained as a priority queue.  Execution of the
event means calling the action function, passing it the argument
sequence in "argument" (remember that in Python, multiple function
arguments are be packed in a sequence) and keyword parameters in "kwargs".
The action function may be an instance method so it
has another way to reference private data (besides global variables).
"""

import time
import heapq
from collections import namedtuple
from itertools import count
import threading
from time import monotonic as _time

__all__ = ["scheduler"]

Event = namedtuple('Event', 'time, priority, sequence, action, argument, kwargs')
Event.time.__doc__ = ('''Numeric type compatible with the return value of the
timefunc function passed to the constructor.''')
Event.priority.__doc__ = ('''Events scheduled for the same time will be executed
in the order of their priority.''')
Event.sequence.__doc__ = ('''A continually increasing sequence number that
    separates events if time and priority are equal.''')
Event.action.__doc__ = ('''Executing the event means executing
action(*argument, **kwargs)''')
Event.argument.__doc__ = ('''argument is a sequence holding the positional
arguments for the action.''')
Event.kwargs.__doc__ = ('''kwargs is a dictionary holding the keyword
arguments for the action.''')

_sentinel = object()

class scheduler:

    def __init__(self, timefunc=_time, delayfunc=time.sleep):
        """Initialize a new instance, passing the time and delay
        functions"""
        self._queue = []
        self._lock = threading.RLock()
        self.timefunc = timefunc
        self.delayfunc = delayfunc
        self._sequence_generator = count()

    def enterabs(self, time, priority, action, argument=(), kwargs=_sentinel):
        """Enter a new event in the queue at an absolute time.

        Returns an ID for the event which can be used to remove it,
        if necessary.

        """
        if kwargs is _sentinel:
            kwargs = {}

        with self._lock:
            event = Event(time, priority, next(self._sequence_generator),
                          action, argument, kwargs)
            heapq.heappush(self._queue, event)
        return event # The ID

    def enter(self, delay, priority, action, argument=(), kwargs=_sentinel):
        """A variant that specifies the time as a relative time.

        This is actually the more commonly used interface.

        """
        time = self.timefunc() + delay
        return self.enterabs(time, priority, action, argument, kwargs)

    def cancel(self, event):
        """Remove an event from the queue.

        This must be presented the ID as returned by enter().
        If the event is not in the queue, this raises ValueError.

        """
        with self._lock:
            self._queue.remove(event)
            heapq.heapify(self._queue)

    def empty(self):
        """Check whether the queue is empty."""
        with self._lock:
            return not self._queue

    def run(self, blocking=True):
        """Execute events until the queue is empty.
        If blocking is False executes the scheduled events due to
        expire soonest (if any) and then return the deadline of the
        next scheduled call in the scheduler.

        When there is a positive delay until the first event, the
        delay function is called and the event is left in the queue;
        otherwise, the event is removed from the queue and executed
        (its action function is called, passing it the argument).  If
        the delay function returns prematurely, it is simply
        restarted.

        It is legal for both the delay function and the action
        function to modify the queue or to raise an exception;
        exceptions are not caught but the scheduler's state remains
        well-defined so run() may be called again.

        A questionable hack is added to allow other threads to run:
        just after an event is executed, a delay of 0 is executed, to
        avoid monopolizing the CPU when other threads are also
        runnable.

        """
        # localize variable access to minimize overhead
        # and to improve thread safety
        lock = self._lock
        q = self._queue
        delayfunc = self.delayfunc
        timefunc = self.timefunc
        pop = heapq.heappop
        while True:
            with lock:
                if not q:
                    break
                (time, priority, sequence, action,
                 argument, kwargs) = q[0]
                now = timefunc()
                if time > now:
                    delay = True
                else:
                    delay = False
                    pop(q)
            if delay:
                if not blocking:
                    return time - now
                delayfunc(time - now)
            else:
                action(*argument, **kwargs)
                delayfunc(0)   # Let other threads run

    @property
    def queue(self):
        """An ordered list of upcoming events.

        Events are named tuples with fields for:
            time, priority, action, arguments, kwargs

        """
        # Use heapq to sort the queue rather than using 'sorted(self._queue)'.
        # With heapq, two events scheduled at the same time will show in
        # the actual order they would be retrieved.
        with self._lock:
            events = self._queue[:]
        return list(map(heapq.heappop, [events]*len(events)))
