"""Conversion functions between RGB and other color systems.

This modules provides two functions for each color system ABC:

  rgb_to_abc(r, g, b) --> a, b, c
  abc_to_rgb(a, b, c) --> r, g, b

All inputs and outputs are triples of floats in the range [0.0...1.0]
(with the exception of I and Q, which covers a slightly larger range).
Inputs outside the valid range may cause exceptions or invalid outputs.

Supported color systems:
RGB: Red, Green, Blue components
YIQ: Luminance, Chrominance (used by composite video signals)
HLS: Hue, Luminance, Saturation
HSV: Hue, Saturation, Value
"""

# References:
# http://en.wikipedia.org/wiki/YIQ
# http://en.wikipedia.org/wiki/HLS_color_space
# http://en.wikipedia.org/wiki/HSV_color_space

__all__ = ["rgb_to_yiq","yiq_to_rgb","rgb_to_hls","hls_to_rgb",
           "rgb_to_hsv","hsv_to_rgb"]

# Some floating point constants

ONE_THIRD = 1.0/3.0
ONE_SIXTH = 1.0/6.0
TWO_THIRD = 2.0/3.0

# YIQ: used by composite video signals (linear combinations of RGB)
# Y: perceived grey level (0.0 == black, 1.0 == white)
# I, Q: color components
#
# There are a great many versions of the constants used in these formulae.
# The ones in this library uses constants from the FCC version of NTSC.

def rgb_to_yiq(r, g, b):
    y = 0.30*r + 0.59*g + 0.11*b
    i = 0.74*(r-y) - 0.27*(b-y)
    q = 0.48*(r-y) + 0.41*(b-y)
    return (y, i, q)

def yiq_to_rgb(y, i, q):
    # r = y + (0.27*q + 0.41*i) / (0.74*0.41 + 0.27*0.48)
    # b = y + (0.74*q - 0.48*i) / (0.74*0.41 + 0.27*0.48)
    # g = y - (0.30*(r-y) + 0.11*(b-y)) / 0.59

    r = y + 0.9468822170900693*i + 0.6235565819861433*q
    g = y - 0.27478764629897834*i - 0.6356910791873801*q
    b = y - 1.1085450346420322*i + 1.7090069284064666*q

    if r < 0.0:
        r = 0.0
    if g < 0.0:
        g = 0.0
    if b < 0.0:
        b = 0.0
    if r > 1.0:
        r = 1.0
    if g > 1.0:
        g = 1.0
    if b > 1.0:
        b = 1.0
    return (r, g, b)


# HLS: Hue, Luminance, Saturation
# H: position in the spectrum
# L: color lightness
# S: color saturation

def rgb_to_hls(r, g, b):
    maxc = max(r, g, b)
    minc = min(r, g, b)
    sumc = (maxc+minc)
    rangec = (maxc-minc)
    l = sumc/2.0
    if minc == maxc:
        return 0.0, l, 0.0
    if l <= 0.5:
        s = rangec / sumc
    else:
        s = rangec / (2.0-maxc-minc)  # Not always 2.0-sumc: gh-106498.
    rc = (maxc-r) / rangec
    gc = (maxc-g) / rangec
    bc = (maxc-b) / rangec
    if r == maxc:
        h = bc-gc
    elif g == maxc:
        h = 2.0+rc-bc
    else:
        h = 4.0+gc-rc
    h = (h/6.0) % 1.0
    return h, l, s

def hls_to_rgb(h, l, s):
    if s == 0.0:
        return l, l, l
    if l <= 0.5:
        m2 = l * (1.0+s)
    else:
        m2 = l+s-(l*s)
    m1 = 2.0*l - m2
    return (_v(m1, m2, h+ONE_THIRD), _v(m1, m2, h), _v(m1, m2, h-ONE_THIRD))

def _v(m1, m2, hue):
    hue = hue % 1.0
    if hue < ONE_SIXTH:
        return m1 + (m2-m1)*hue*6.0
    if hue < 0.5:
        return m2
    if hue < TWO_THIRD:
        return m1 + (m2-m1)*(TWO_THIRD-hue)*6.0
    return m1


# HSV: Hue, Saturation, Value
# H: position in the spectrum
# S: color saturation ("purity")
# V: color brightness

def rgb_to_hsv(r, g, b):
    maxc = max(r, g, b)
    minc = min(r, g, b)
    rangec = (maxc-minc)
    v = maxc
    if minc == maxc:
        return 0.0, 0.0, v
    s = rangec / maxc
    rc = (maxc-r) / rangec
    gc = (maxc-g) / rangec
    bc = (maxc-b) / rangec
    if r == maxc:
        h = bc-gc
    elif g == maxc:
        h = 2.0+rc-bc
    else:
        h = 4.0+gc-rc
    h = (h/6.0) % 1.0
    return h, s, v

def hsv_to_rgb(h, s, v):
    if s == 0.0:
        return v, v, v
    i = int(h*6.0) # XXX assume int() truncates!
    f = (h*6.0) - i
    p = v*(1.0 - s)
    q = v*(1.0 - s*f)
    t = v*(1.0 - s*(1.0-f))
    i = i%6
    if i == 0:
        return v, t, p
    if i == 1:
        return q, v, p
    if i == 2:
        return p, v, t
    if i == 3:
        return p, q, v
    if i == 4:
        return t, p, v
    if i == 5:
        return v, p, q
    # Cannot get here
