__all__ = [
    # Functions
    'calcsize', 'pack', 'pack_into', 'unpack', 'unpack_from',
    'iter_unpack',

    # Classes
    'Struct',

    # Exceptions
    'error'
    ]

from _struct import *
from _struct import _clearcache
from _struct import __doc__
