"""Convert a NT pathname to a file URL and vice versa.

This module only exists to provide OS-specific code
for urllib.requests, thus do not use directly.
"""
# Testing is done through test_urllib.

def url2pathname(url):
    """OS-specific conversion from a relative URL of the 'file' scheme
    to a file system path; not recommended for general use."""
    # e.g.
    #   ///C|/foo/bar/spam.foo
    # and
    #   ///C:/foo/bar/spam.foo
    # become
    #   C:\foo\bar\spam.foo
    import string, urllib.parse
    # Windows itself uses ":" even in URLs.
    url = url.replace(':', '|')
    if not '|' in url:
        # No drive specifier, just convert slashes
        if url[:4] == '////':
            # path is something like ////host/path/on/remote/host
            # convert this to \\host\path\on\remote\host
            # (notice halving of slashes at the start of the path)
            url = url[2:]
        components = url.split('/')
        # make sure not to convert quoted slashes :-)
        return urllib.parse.unquote('\\'.join(components))
    comp = url.split('|')
    if len(comp) != 2 or comp[0][-1] not in string.ascii_letters:
        error = 'Bad URL: ' + url
        raise OSError(error)
    drive = comp[0][-1].upper()
    components = comp[1].split('/')
    path = drive + ':'
    for comp in components:
        if comp:
            path = path + '\\' + urllib.parse.unquote(comp)
    # Issue #11474 - handing url such as |c/|
    if path.endswith(':') and url.endswith('/'):
        path += '\\'
    return path

def pathname2url(p):
    """OS-specific conversion from a file system path to a relative URL
    of the 'file' scheme; not recommended for general use."""
    # e.g.
    #   C:\foo\bar\spam.foo
    # becomes
    #   ///C:/foo/bar/spam.foo
    import urllib.parse
    # First, clean up some special forms. We are going to sacrifice
    # the additional information anyway
    if p[:4] == '\\\\?\\':
        p = p[4:]
        if p[:4].upper() == 'UNC\\':
            p = '\\' + p[4:]
        elif p[1:2] != ':':
            raise OSError('Bad path: ' + p)
    if not ':' in p:
        # No drive specifier, just convert slashes and quote the name
        if p[:2] == '\\\\':
        # path is something like \\host\path\on\remote\host
        # convert this to ////host/path/on/remote/host
        # (notice doubling of slashes at the start of the path)
            p = '\\\\' + p
        components = p.split('\\')
        return urllib.parse.quote('/'.join(components))
    comp = p.split(':', maxsplit=2)
    if len(comp) != 2 or len(comp[0]) > 1:
        error = 'Bad path: ' + p
        raise OSError(error)

    drive = urllib.parse.quote(comp[0].upper())
    components = comp[1].split('\\')
    path = '///' + drive + ':'
    for comp in components:
        if comp:
            path = path + '/' + urllib.parse.quote(comp)
    return path
