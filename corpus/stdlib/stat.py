"""Constants/functions for interpreting results of os.stat() and os.lstat().

Suggested usage: from stat import *
"""

# Indices for stat struct members in the tuple returned by os.stat()

ST_MODE  = 0
ST_INO   = 1
ST_DEV   = 2
ST_NLINK = 3
ST_UID   = 4
ST_GID   = 5
ST_SIZE  = 6
ST_ATIME = 7
ST_MTIME = 8
ST_CTIME = 9

# Extract bits from the mode

def S_IMODE(mode):
    """Return the portion of the file's mode that can be set by
    os.chmod().
    """
    return mode & 0o7777

def S_IFMT(mode):
    """Return the portion of the file's mode that describes the
    file type.
    """
    return mode & 0o170000

# Constants used as S_IFMT() for various file types
# (not all are implemented on all systems)

S_IFDIR  = 0o040000  # directory
S_IFCHR  = 0o020000  # character device
S_IFBLK  = 0o060000  # block device
S_IFREG  = 0o100000  # regular file
S_IFIFO  = 0o010000  # fifo (named pipe)
S_IFLNK  = 0o120000  # symbolic link
S_IFSOCK = 0o140000  # socket file
# Fallbacks for uncommon platform-specific constants
S_IFDOOR = 0
S_IFPORT = 0
S_IFWHT = 0

# Functions to test for each file type

def S_ISDIR(mode):
    """Return True if mode is from a directory."""
    return S_IFMT(mode) == S_IFDIR

def S_ISCHR(mode):
    """Return True if mode is from a character special device file."""
    return S_IFMT(mode) == S_IFCHR

def S_ISBLK(mode):
    """Return True if mode is from a block special device file."""
    return S_IFMT(mode) == S_IFBLK

def S_ISREG(mode):
    """Return True if mode is from a regular file."""
    return S_IFMT(mode) == S_IFREG

def S_ISFIFO(mode):
    """Return True if mode is from a FIFO (named pipe)."""
    return S_IFMT(mode) == S_IFIFO

def S_ISLNK(mode):
    """Return True if mode is from a symbolic link."""
    return S_IFMT(mode) == S_IFLNK

def S_ISSOCK(mode):
    """Return True if mode is from a socket."""
    return S_IFMT(mode) == S_IFSOCK

def S_ISDOOR(mode):
    """Return True if mode is from a door."""
    return False

def S_ISPORT(mode):
    """Return True if mode is from an event port."""
    return False

def S_ISWHT(mode):
    """Return True if mode is from a whiteout."""
    return False

# Names for permission bits

S_ISUID = 0o4000  # set UID bit
S_ISGID = 0o2000  # set GID bit
S_ENFMT = S_ISGID # file locking enforcement
S_ISVTX = 0o1000  # sticky bit
S_IREAD = 0o0400  # Unix V7 synonym for S_IRUSR
S_IWRITE = 0o0200 # Unix V7 synonym for S_IWUSR
S_IEXEC = 0o0100  # Unix V7 synonym for S_IXUSR
S_IRWXU = 0o0700  # mask for owner permissions
S_IRUSR = 0o0400  # read by owner
S_IWUSR = 0o0200  # write by owner
S_IXUSR = 0o0100  # execute by owner
S_IRWXG = 0o0070  # mask for group permissions
S_IRGRP = 0o0040  # read by group
S_IWGRP = 0o0020  # write by group
S_IXGRP = 0o0010  # execute by group
S_IRWXO = 0o0007  # mask for others (not in group) permissions
S_IROTH = 0o0004  # read by others
S_IWOTH = 0o0002  # write by others
S_IXOTH = 0o0001  # execute by others

# Names for file flags

UF_NODUMP    = 0x00000001  # do not dump file
UF_IMMUTABLE = 0x00000002  # file may not be changed
UF_APPEND    = 0x00000004  # file may only be appended to
UF_OPAQUE    = 0x00000008  # directory is opaque when viewed through a union stack
UF_NOUNLINK  = 0x00000010  # file may not be renamed or deleted
UF_COMPRESSED = 0x00000020 # OS X: file is hfs-compressed
UF_HIDDEN    = 0x00008000  # OS X: file should not be displayed
SF_ARCHIVED  = 0x00010000  # file may be archived
SF_IMMUTABLE = 0x00020000  # file may not be changed
SF_APPEND    = 0x00040000  # file may only be appended to
SF_NOUNLINK  = 0x00100000  # file may not be renamed or deleted
SF_SNAPSHOT  = 0x00200000  # file is a snapshot file


_filemode_table = (
    ((S_IFLNK,         "l"),
     (S_IFSOCK,        "s"),  # Must appear before IFREG and IFDIR as IFSOCK == IFREG | IFDIR
     (S_IFREG,         "-"),
     (S_IFBLK,         "b"),
     (S_IFDIR,         "d"),
     (S_IFCHR,         "c"),
     (S_IFIFO,         "p")),

    ((S_IRUSR,         "r"),),
    ((S_IWUSR,         "w"),),
    ((S_IXUSR|S_ISUID, "s"),
     (S_ISUID,         "S"),
     (S_IXUSR,         "x")),

    ((S_IRGRP,         "r"),),
    ((S_IWGRP,         "w"),),
    ((S_IXGRP|S_ISGID, "s"),
     (S_ISGID,         "S"),
     (S_IXGRP,         "x")),

    ((S_IROTH,         "r"),),
    ((S_IWOTH,         "w"),),
    ((S_IXOTH|S_ISVTX, "t"),
     (S_ISVTX,         "T"),
     (S_IXOTH,         "x"))
)

def filemode(mode):
    """Convert a file's mode to a string of the form '-rwxrwxrwx'."""
    perm = []
    for table in _filemode_table:
        for bit, char in table:
            if mode & bit == bit:
                perm.append(char)
                break
        else:
            perm.append("-")
    return "".join(perm)


# Windows FILE_ATTRIBUTE constants for interpreting os.stat()'s
# "st_file_attributes" member

FILE_ATTRIBUTE_ARCHIVE = 32
FILE_ATTRIBUTE_COMPRESSED = 2048
FILE_ATTRIBUTE_DEVICE = 64
FILE_ATTRIBUTE_DIRECTORY = 16
FILE_ATTRIBUTE_ENCRYPTED = 16384
FILE_ATTRIBUTE_HIDDEN = 2
FILE_ATTRIBUTE_INTEGRITY_STREAM = 32768
FILE_ATTRIBUTE_NORMAL = 128
FILE_ATTRIBUTE_NOT_CONTENT_INDEXED = 8192
FILE_ATTRIBUTE_NO_SCRUB_DATA = 131072
FILE_ATTRIBUTE_OFFLINE = 4096
FILE_ATTRIBUTE_READONLY = 1
FILE_ATTRIBUTE_REPARSE_POINT = 1024
FILE_ATTRIBUTE_SPARSE_FILE = 512
FILE_ATTRIBUTE_SYSTEM = 4
FILE_ATTRIBUTE_TEMPORARY = 256
FILE_ATTRIBUTE_VIRTUAL = 65536


# If available, use C implementation
try:
    from _stat import *
except ImportError:
    pass
