"""Filename matching with shell patterns.

fnmatch(FILENAME, PATTERN) matches according to the local convention.
fnmatchcase(FILENAME, PATTERN) always takes case in account.

The functions operate by translating the pattern into a regular
expression.  They cache the compiled regular expressions for speed.

The function translate(PATTERN) returns a regular expression
corresponding to PATTERN.  (It does not compile it.)
"""
import os
import posixpath
import re
import functools

__all__ = ["filter", "fnmatch", "fnmatchcase", "translate"]

def fnmatch(name, pat):
    """Test whether FILENAME matches PATTERN.

    Patterns are Unix shell style:

    *       matches everything
    ?       matches any single character
    [seq]   matches any character in seq
    [!seq]  matches any char not in seq

    An initial period in FILENAME is not special.
    Both FILENAME and PATTERN are first case-normalized
    if the operating system requires it.
    If you don't want this, use fnmatchcase(FILENAME, PATTERN).
    """
    name = os.path.normcase(name)
    pat = os.path.normcase(pat)
    return fnmatchcase(name, pat)

@functools.lru_cache(maxsize=32768, typed=True)
def _compile_pattern(pat):
    if isinstance(pat, bytes):
        pat_str = str(pat, 'ISO-8859-1')
        res_str = translate(pat_str)
        res = bytes(res_str, 'ISO-8859-1')
    else:
        res = translate(pat)
    return re.compile(res).match

def filter(names, pat):
    """Construct a list from those elements of the iterable NAMES that match PAT."""
    result = []
    pat = os.path.normcase(pat)
    match = _compile_pattern(pat)
    if os.path is posixpath:
        # normcase on posix is NOP. Optimize it away from the loop.
        for name in names:
            if match(name):
                result.append(name)
    else:
        for name in names:
            if match(os.path.normcase(name)):
                result.append(name)
    return result

def fnmatchcase(name, pat):
    """Test whether FILENAME matches PATTERN, including case.

    This is a version of fnmatch() which doesn't case-normalize
    its arguments.
    """
    match = _compile_pattern(pat)
    return match(name) is not None


def translate(pat):
    """Translate a shell PATTERN to a regular expression.

    There is no way to quote meta-characters.
    """

    STAR = object()
    res = []
    add = res.append
    i, n = 0, len(pat)
    while i < n:
        c = pat[i]
        i = i+1
        if c == '*':
            # compress consecutive `*` into one
            if (not res) or res[-1] is not STAR:
                add(STAR)
        elif c == '?':
            add('.')
        elif c == '[':
            j = i
            if j < n and pat[j] == '!':
                j = j+1
            if j < n and pat[j] == ']':
                j = j+1
            while j < n and pat[j] != ']':
                j = j+1
            if j >= n:
                add('\\[')
            else:
                stuff = pat[i:j]
                if '-' not in stuff:
                    stuff = stuff.replace('\\', r'\\')
                else:
                    chunks = []
                    k = i+2 if pat[i] == '!' else i+1
                    while True:
                        k = pat.find('-', k, j)
                        if k < 0:
                            break
                        chunks.append(pat[i:k])
                        i = k+1
                        k = k+3
                    chunk = pat[i:j]
                    if chunk:
                        chunks.append(chunk)
                    else:
                        chunks[-1] += '-'
                    # Remove empty ranges -- invalid in RE.
                    for k in range(len(chunks)-1, 0, -1):
                        if chunks[k-1][-1] > chunks[k][0]:
                            chunks[k-1] = chunks[k-1][:-1] + chunks[k][1:]
                            del chunks[k]
                    # Escape backslashes and hyphens for set difference (--).
                    # Hyphens that create ranges shouldn't be escaped.
                    stuff = '-'.join(s.replace('\\', r'\\').replace('-', r'\-')
                                     for s in chunks)
                # Escape set operations (&&, ~~ and ||).
                stuff = re.sub(r'([&~|])', r'\\\1', stuff)
                i = j+1
                if not stuff:
                    # Empty range: never match.
                    add('(?!)')
                elif stuff == '!':
                    # Negated empty range: match any character.
                    add('.')
                else:
                    if stuff[0] == '!':
                        stuff = '^' + stuff[1:]
                    elif stuff[0] in ('^', '['):
                        stuff = '\\' + stuff
                    add(f'[{stuff}]')
        else:
            add(re.escape(c))
    assert i == n

    # Deal with STARs.
    inp = res
    res = []
    add = res.append
    i, n = 0, len(inp)
    # Fixed pieces at the start?
    while i < n and inp[i] is not STAR:
        add(inp[i])
        i += 1
    # Now deal with STAR fixed STAR fixed ...
    # For an interior `STAR fixed` pairing, we want to do a minimal
    # .*? match followed by `fixed`, with no possibility of backtracking.
    # Atomic groups ("(?>...)") allow us to spell that directly.
    # Note: people rely on the undocumented ability to join multiple
    # translate() results together via "|" to build large regexps matching
    # "one of many" shell patterns.
    while i < n:
        assert inp[i] is STAR
        i += 1
        if i == n:
            add(".*")
            break
        assert inp[i] is not STAR
        fixed = []
        while i < n and inp[i] is not STAR:
            fixed.append(inp[i])
            i += 1
        fixed = "".join(fixed)
        if i == n:
            add(".*")
            add(fixed)
        else:
            add(f"(?>.*?{fixed})")
    assert i == n
    res = "".join(res)
    return fr'(?s:{res})\Z'
