s = """Gur Mra bs Clguba, ol Gvz Crgref

Ornhgvshy vf orggre guna htyl.
Rkcyvpvg vf orggre guna vzcyvpvg.
Fvzcyr vf orggre guna pbzcyrk.
Pbzcyrk vf orggre guna pbzcyvpngrq.
Syng vf orggre guna arfgrq.
Fcnefr vf orggre guna qrafr.
Ernqnovyvgl pbhagf.
Fcrpvny pnfrf nera'g fcrpvny rabhtu gb oernx gur ehyrf.
Nygubhtu cenpgvpnyvgl orngf chevgl.
Reebef fubhyq arire cnff fvyragyl.
Hayrff rkcyvpvgyl fvyraprq.
Va gur snpr bs nzovthvgl, ershfr gur grzcgngvba gb thrff.
Gurer fubhyq or bar-- naq cersrenoyl bayl bar --boivbhf jnl gb qb vg.
Nygubhtu gung jnl znl abg or boivbhf ng svefg hayrff lbh'er Qhgpu.
Abj vf orggre guna arire.
Nygubhtu arire vf bsgra orggre guna *evtug* abj.
Vs gur vzcyrzragngvba vf uneq gb rkcynva, vg'f n onq vqrn.
Vs gur vzcyrzragngvba vf rnfl gb rkcynva, vg znl or n tbbq vqrn.
Anzrfcnprf ner bar ubaxvat terng vqrn -- yrg'f qb zber bs gubfr!"""

d = {}
for c in (65, 97):
    for i in range(26):
        d[chr(i+c)] = chr((i+13) % 26 + c)

print("".join([d.get(c, c) for c in s]))
