import ast, sys, os
pol = int(sys.argv[1])
def key(n): return getattr(n,'lineno',0)*4099 + getattr(n,'col_offset',0)*17 + len(type(n).__name__)
if pol == 1: ast.AST.__hash__ = lambda self: key(self)
elif pol == 2: ast.AST.__hash__ = lambda self: -key(self)
elif pol == 3: ast.AST.__hash__ = lambda self: (key(self)*2654435761) & 0xffffffff
import pyrefact.main
main = sys.modules["pyrefact.main"]
from pyrefact import logs; logs.set_level(100)
srcs = [
 "import os, sys, re, json\nfrom typing import List, Dict, Set\nunusedA = 1\nunusedB = 2\ndef f(someArg, otherArg):\n    tmpOne = someArg\n    tmpTwo = otherArg\n    if someArg:\n        y = 1\n        z = 3\n    else:\n        y = 2\n        z = 3\n    return y + z\nprint(f(1, 2))\n",
 "def f(x):\n    import math\n    import heapq\n    a = 1\n    b = 2\n    c = 3\n    return math.pi\ndef g(x):\n    return 1\ndef h(x):\n    return 1\nprint(f(1), g(1), h(2))\n",
]
import hashlib
for s in srcs:
    out = main.format_code(s)
    print(hashlib.sha1(out.encode()).hexdigest()[:10])
print(srcs and out)
