import json, sys, os, io, tokenize, ast, collections, multiprocessing as mp, warnings
warnings.simplefilter("ignore")
def annotate_lines(src):
    """yield (lineno, annotated_source, annotated_line_text) for lines where a trailing comment is lexically a comment"""
    try: toks = list(tokenize.generate_tokens(io.StringIO(src).readline)); base = ast.dump(ast.parse(src))
    except Exception: return
    lines = src.splitlines(keepends=True)
    # lines that end a token of type NEWLINE or NL outside strings: use rows where some non-string token ends at line end
    ok_rows = set()
    for t in toks:
        if t.type in (tokenize.NEWLINE, tokenize.NL) and t.start[0] == t.end[0] or t.type in (tokenize.NEWLINE, tokenize.NL):
            ok_rows.add(t.start[0])
    for row in sorted(ok_rows):
        if row > len(lines): continue
        line = lines[row-1]
        body = line.rstrip("\r\n")
        if not body.strip() or "#" in body: continue
        if body.rstrip().endswith("\\"): continue
        new_line = body + "  # pyrefact: ignore K%d" % row
        new_src = "".join(lines[:row-1]) + new_line + line[len(body):] + "".join(lines[row:])
        try:
            if ast.dump(ast.parse(new_src)) != base: continue
        except SyntaxError: continue
        yield row, new_src, new_line
def work(item):
    import pyrefact.main
    main = sys.modules["pyrefact.main"]
    from pyrefact import logs, core
    logs.set_level(100)
    idx, src = item
    res = []
    for row, new_src, new_line in annotate_lines(src):
        for c in (core.parse, core.is_valid_python): c.cache_clear()
        try: out = main.format_code(new_src, max_line_length=100)
        except BaseException as e: res.append((idx, row, "crash")); continue
        if new_line.rstrip() in [l.rstrip() for l in out.splitlines()]: res.append((idx, row, "ok"))
        elif new_line.strip() in [l.strip() for l in out.splitlines()]: res.append((idx, row, "reindented"))
        else: res.append((idx, row, "LOST", new_line, out))
    return res
if __name__ == "__main__":
    ex = json.load(open("/tmp/probe/examples.json"))
    os.chdir("/tmp/probe/t1")
    with mp.Pool(16) as p: rs = p.map(work, [(i, e["input"]) for i, e in enumerate(ex)], chunksize=2)
    st = collections.Counter(r[2] for rr in rs for r in rr)
    print(st)
    shown = 0
    for rr in rs:
        for r in rr:
            if r[2] == "LOST" and shown < 6:
                shown += 1; print("----", ex[r[0]]["file"], "row", r[1]); print("LINE:", r[3]); print(r[4][:400])
