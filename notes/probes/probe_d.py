import sys, os, pathlib, shutil
import pyrefact.main
main = sys.modules["pyrefact.main"]
from pyrefact import logs, core, tracing; logs.set_level(100)
A = "from b import getcwd\nprint(getcwd())\n"
B = "from os import getcwd\n\n\ndef helper():\n    return 1\n\n\nprint(helper())\n"
def setup():
    pathlib.Path("a.py").write_text(A); pathlib.Path("b.py").write_text(B)
    for f in (core.parse, tracing.trace_origin, core.is_valid_python): f.cache_clear()
for order in (["a.py","b.py"],["b.py","a.py"]):
    setup()
    for f in order: main.format_file(pathlib.Path(f))
    print(order, "a=", repr(pathlib.Path("a.py").read_text()), "b=", repr(pathlib.Path("b.py").read_text()))
