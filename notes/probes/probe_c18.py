import sys, os, pathlib, importlib, ast
import pyrefact.main
main = sys.modules["pyrefact.main"]
from pyrefact import logs, core, tracing, fixes
logs.set_level(100)
root = pathlib.Path("/tmp/probe/t3"); os.chdir(root)
(root/"vq_m1.py").write_text("def f():\n    return 1\nclass C:\n    pass\nV = 3\n__all__ = ['f', 'C']\n")
(root/"vq_m2.py").write_text("from vq_m1 import f as g\nfrom vq_m1 import *\nimport os\ndef own():\n    return 2\n")
clients = [
 "from vq_m2 import g\nprint(g())\n",
 "from vq_m2 import *\nprint(g(), f(), own())\n",
 "from vq_m2 import os\nprint(os.sep)\n",
 "from vq_m2 import C, own\nprint(C, own())\n",
 "import vq_m2\nprint(vq_m2.g())\n",
]
def run(src):
    for k in [k for k in sys.modules if k.startswith("vq_")]: del sys.modules[k]
    importlib.invalidate_caches()
    ns = {"__name__": "client"}
    sys.path.insert(0, str(root))
    try:
        import io, contextlib
        buf = io.StringIO()
        with contextlib.redirect_stdout(buf): exec(compile(src, "<client>", "exec"), ns)
        return ("ok", ns)
    except BaseException as e: return ("exc:" + type(e).__name__ + ":" + str(e), ns)
    finally: sys.path.pop(0)
for c in clients:
    for f in (core.parse, tracing.trace_origin): f.cache_clear()
    out = main.format_code(c, max_line_length=100)
    s0, ns0 = run(c)
    # keep modules loaded so identities are comparable: do not scrub between the two runs
    sys.path.insert(0, str(root))
    try:
        ns1 = {"__name__": "client"}
        import io, contextlib
        try:
            with contextlib.redirect_stdout(io.StringIO()): exec(compile(out, "<client2>", "exec"), ns1); s1 = "ok"
        except BaseException as e: s1 = "exc:" + type(e).__name__ + ":" + str(e)
    finally: sys.path.pop(0)
    names = sorted({n.id for n in ast.walk(ast.parse(c)) if isinstance(n, ast.Name) and isinstance(n.ctx, ast.Load) and n.id in ns0})
    same = {n: (n in ns1 and ns1[n] is ns0[n]) for n in names}
    print(repr(c), "->", repr(out), s0, s1, same)
