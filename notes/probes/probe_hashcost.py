import ast, sys, time, json
pol = int(sys.argv[1])
if pol == 1:
    def h(self):
        return getattr(self, "lineno", 0) * 4099 + getattr(self, "col_offset", 0) * 17 + len(type(self).__name__)
    ast.AST.__hash__ = h
import pyrefact.main
main = sys.modules["pyrefact.main"]
from pyrefact import logs, core; logs.set_level(100)
import warnings; warnings.simplefilter("ignore")
ex = json.load(open("/tmp/probe/examples.json"))[:150]
t0 = time.process_time(); n = 0; import hashlib; hh = hashlib.sha1()
for e in ex:
    try: out = main.format_code(e["input"]); hh.update(out.encode())
    except Exception: hh.update(b"EXC")
print(pol, round(time.process_time() - t0, 2), hh.hexdigest()[:12])
