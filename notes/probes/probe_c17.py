import ast, itertools, collections, time, sys
from pyrefact import core, fixes, symbolic_math, logs
logs.set_level(100)
OPS = ["<", "<=", "==", "!=", ">", ">="]
atoms = [f"{v} {o} {c}" for v in ("x",) for o in OPS for c in (0, 1, 2)] + [f"y {o} 1" for o in ("<", ">=")]
forms = []
for a, b in itertools.product(atoms, repeat=2):
    for j in ("and", "or"):
        forms.append(f"{a} {j} {b}")
for a in atoms[:6]:
    forms.append(f"not {a}")
    forms.append(f"not ({a} and y >= 1)")
print(len(forms))
rules = {"sbe": symbolic_math.simplify_boolean_expressions, "sym": symbolic_math.simplify_boolean_expressions_symmath, "neg": fixes.replace_negated_numeric_comparison, "rbv": fixes.remove_redundant_boolop_values}
stats = collections.Counter(); ex = collections.defaultdict(list); tt = collections.Counter()
VALS = [(x, y) for x in range(-1, 4) for y in range(-1, 4)]
for f in forms:
    src = f"r = {f}\n"
    for name, rule in rules.items():
        for c in (core.parse, core.is_valid_python): c.cache_clear()
        t0 = time.perf_counter()
        try: out = rule(src)
        except BaseException as e:
            stats[name + ":crash:" + type(e).__name__] += 1; continue
        tt[name] += time.perf_counter() - t0
        if out == src: stats[name + ":nochange"] += 1; continue
        try: e2 = out.split("=", 1)[1].strip(); code2 = compile(e2, "<o>", "eval")
        except Exception: stats[name + ":unparseable"] += 1; continue
        code1 = compile(f, "<i>", "eval")
        bad = [(x, y) for x, y in VALS if (lambda a, b: type(a) is not type(b) or a != b)(eval(code1, {"x": x, "y": y}), eval(code2, {"x": x, "y": y}))]
        if bad:
            stats[name + ":VIOL"] += 1
            if len(ex[name]) < 10: ex[name].append((f, e2, bad[:3]))
        else: stats[name + ":ok"] += 1
for k in sorted(stats): print(k, stats[k])
print({k: round(v, 2) for k, v in tt.items()})
for k, v in ex.items():
    print("==", k); [print("   ", x) for x in v]
