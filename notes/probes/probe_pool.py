import sys, os, threading, builtins, io, pathlib, shutil, itertools, collections
import pyrefact.main
main = sys.modules["pyrefact.main"]
from pyrefact import logs, core, tracing
logs.set_level(100)
ROOT = pathlib.Path("/tmp/probe/t2")
FILES = {"a.py": "from b import getcwd\nprint(getcwd())\n", "b.py": "from os import getcwd\n\n\ndef helper():\n    return 1\n\n\nprint(helper())\n"}
CACHES = [core.parse, core.is_valid_python, core.compile_template, core._group_nodes_in_scope, core._get_line_start_charnos, tracing.trace_origin]
real_open = builtins.open

class Explorer:
    def __init__(self): self.schedule = []; self.points = []
class Sched:
    """one execution: tasks run as threads, one at a time; switch only at open() of files under ROOT"""
    def __init__(self, choices):
        self.choices = list(choices); self.trace = []; self.enabled_log = []
        self.cv = threading.Condition(); self.current = None; self.waiting = {}; self.done = set(); self.threads = {}
    def point(self, tid, what):
        with self.cv:
            self.waiting[tid] = what
            self.current = None
            self.cv.notify_all()
            while self.current != tid: self.cv.wait()
            del self.waiting[tid]
    def run(self, tasks):
        for tid, fn in tasks.items():
            def body(tid=tid, fn=fn):
                self.point(tid, "start")
                try: fn()
                finally:
                    with self.cv:
                        self.done.add(tid); self.current = None; self.cv.notify_all()
            t = threading.Thread(target=body, daemon=True); self.threads[tid] = t; t.start()
        step = 0
        while True:
            with self.cv:
                while self.current is not None or (len(self.waiting) + len(self.done) < len(tasks)): self.cv.wait()
                if len(self.done) == len(tasks): break
                enabled = sorted(self.waiting)
                c = self.choices[step] if step < len(self.choices) else 0
                assert c < len(enabled), "replay divergence"
                self.enabled_log.append(len(enabled)); self.trace.append((enabled[c], self.waiting[enabled[c]]))
                step += 1
                self.current = enabled[c]; self.cv.notify_all()
        return self.trace
cur = threading.local()
SCHED = None
def patched_open(file, mode="r", *a, **k):
    p = str(file)
    tid = getattr(cur, "tid", None)
    if tid is not None and p.startswith(str(ROOT)) and p.endswith(".py"):
        SCHED.point(tid, ("open", os.path.basename(p), mode[0]))
    return real_open(file, mode, *a, **k)
def execute(choices):
    global SCHED
    if ROOT.exists(): shutil.rmtree(ROOT)
    ROOT.mkdir(parents=True)
    for n, s in FILES.items(): (ROOT / n).write_text(s)
    os.chdir(ROOT)
    for c in CACHES: c.cache_clear()   # (prototype: shared caches; real design swaps per worker)
    import importlib; importlib.invalidate_caches()
    SCHED = Sched(choices)
    tasks = {}
    for n in FILES:
        def fn(n=n):
            cur.tid = n
            main.format_file(ROOT / n)
        tasks[n] = fn
    builtins.open = patched_open; io.open = patched_open
    try: trace = SCHED.run(tasks)
    finally: builtins.open = real_open; io.open = real_open
    final = tuple((n, (ROOT / n).read_text()) for n in sorted(FILES))
    return trace, SCHED.enabled_log, final
# exhaustive DFS over choices
outcomes = collections.defaultdict(list); n = 0
stack = [[]]
while stack:
    prefix = stack.pop()
    trace, enabled, final = execute(prefix)
    n += 1
    outcomes[final].append(trace)
    for i in range(len(prefix), len(enabled)):
        for alt in range(1, enabled[i]):
            stack.append([ (trace_choice) for trace_choice in ( [0]*0 ) ] or (list(prefix) + [0]*(i-len(prefix)) + [alt]))
print("executions", n, "distinct final states", len(outcomes))
for final, traces in outcomes.items():
    print(len(traces), "schedules ->", dict(final)["a.py"].splitlines()[0], "| e.g.", traces[0])
