import ast, itertools, io, contextlib, collections, sys, builtins
from pyrefact import core, logs
logs.set_level(100)
ATOMS = ["0","1","-1","2","1.5","True","False","None",'""','"a"',"()","(0,)","[]","[0]","{}","{1}","x"]
UN = ["not ","-","+","~"]
BIN = ["+","-","*","/","//","%","**","<<","|","&"]
CMP = ["<","<=","==","!=",">",">=","in","not in","is","is not"]
CALLS = ["len","int","str","bool","abs","min","max","sum","sorted","list","tuple","range","round","print","exit"]
def exprs():
    for a in ATOMS: yield a
    for u in UN:
        for a in ATOMS: yield f"{u}{a}"
    for o in BIN + CMP + ["and","or"]:
        for a in ATOMS:
            for b in ATOMS: yield f"{a} {o} {b}"
    for a in ATOMS:
        for b in ["0","1","x"]:
            for c in ['"a"', "2"]: yield f"{a} if {b} else {c}"
    for f in CALLS:
        yield f"{f}()"
        for a in ATOMS: yield f"{f}({a})"
    for m in ['"".join(("a", "b"))', '"a".upper()', '"a b".split()', '"abc".startswith("a")', '"{}".format(1)', '(1).bit_length()', '"a".join(x)']: yield m
def py(e):
    buf = io.StringIO()
    try:
        with contextlib.redirect_stdout(buf):
            v = eval(e, {"__builtins__": builtins})
        return ("val", v, buf.getvalue())
    except BaseException as ex:
        return ("exc", type(ex).__name__, buf.getvalue())
def tool(e):
    node = ast.parse(e, mode="eval").body
    buf = io.StringIO()
    try:
        with contextlib.redirect_stdout(buf):
            v = core.literal_value(node)
        return ("val", v, buf.getvalue())
    except ValueError:
        return ("unknown", None, buf.getvalue())
    except BaseException as ex:
        return ("crash", type(ex).__name__, buf.getvalue())
import warnings; warnings.simplefilter("ignore")
stats = collections.Counter(); ex = collections.defaultdict(list)
for e in exprs():
    if (" is " in e) and not any(k in e.split(" is ")[-1].replace("not ","") for k in ("None","True","False")): 
        continue
    p = py(e); t = tool(e)
    if t[0] == "crash": k = "tool_crash:" + t[1]
    elif t[2]: k = "tool_printed"
    elif t[0] == "val":
        if p[0] == "exc": k = "value_but_python_raises"
        elif p[2]: k = "value_but_python_prints"
        elif type(p[1]) is not type(t[1]) or p[1] != t[1]:
            k = "wrong_value"
            if isinstance(p[1], range): k = "agree"  # same
        else: k = "agree_value"
    else: k = "unknown_ok"
    stats[k] += 1
    if not k.startswith(("agree","unknown_ok")) and len(ex[k]) < 8: ex[k].append((e, p[:2], t[:2]))
print(sum(stats.values()), stats)
for k, v in ex.items():
    print(k); [print("   ", x) for x in v]
