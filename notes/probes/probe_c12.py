import ast, itertools, re, collections
from pyrefact import core, logs, pattern_matching as pm
logs.set_level(100)
T_ELEMS = ["a", "b", "{{x}}", "{{y}}", "{{x?}}", "{{x*}}", "{{x+}}", "{{...}}", "{{...?}}", "{{...*}}", "{{...+}}"]
S_ELEMS = ["a", "b", "c"]
def ref_match(tmpl, subj):
    # regex reading with consistency: named wildcard binds one tree; each repetition same tree
    def go(i, j, env):
        if i == len(tmpl): return j == len(subj)
        t = tmpl[i]
        m = re.fullmatch(r"\{\{(\w+|\.\.\.)([?*+]?)\}\}", t)
        if not m:
            return j < len(subj) and subj[j] == t and go(i+1, j+1, env)
        name, q = m.groups()
        lo, hi = {"": (1,1), "?": (0,1), "*": (0, 99), "+": (1, 99)}[q]
        for n in range(lo, min(hi, len(subj)-j)+1):
            seg = subj[j:j+n]
            if name == "...":
                if go(i+1, j+n, env): return True
                continue
            if len(set(seg)) > 1: continue
            env2 = dict(env)
            if seg:
                if name in env2 and env2[name] != seg[0]: continue
                env2[name] = seg[0]
            if go(i+1, j+n, env2): return True
        return False
    return go(0, 0, {})
stats = collections.Counter(); ex = collections.defaultdict(list)
for tl in range(0, 4):
    for tmpl in itertools.product(T_ELEMS, repeat=tl):
        psrc = "f(" + ", ".join(tmpl) + ")"
        try:
            template = core.compile_template(psrc)
        except Exception as e:
            stats["compile_exc"] += 1; ex["compile_exc"].append((psrc, repr(e))); continue
        for sl in range(0, 5):
            for subj in itertools.product(S_ELEMS, repeat=sl):
                ssrc = "f(" + ", ".join(subj) + ")"
                node = ast.parse(ssrc).body[0].value
                try:
                    got = bool(core.match_template(node, template))
                except Exception as e:
                    stats["match_exc"] += 1; ex["match_exc"].append((psrc, ssrc, repr(e))); continue
                want = ref_match(list(tmpl), list(subj))
                stats["agree" if got == want else ("impl_only" if got else "ref_only")] += 1
                if got != want and len(ex["dis"]) < 25: ex["dis"].append((psrc, ssrc, got, want))
print(stats)
for k, v in ex.items():
    print(k); [print("   ", x) for x in v[:25]]
