import ast, itertools, sys
from pyrefact import processing, core, logs
logs.set_level(100)
BASE = "a = f(1, 2)\nb = [3, 4]\nif c:\n    d = 5\n    e = 6\ng = 7  # pyrefact: ignore\nh = 8\n"
root = ast.parse(BASE)
def rng(node): return core.get_charnos(node, BASE)
stmt_a = root.body[0]; call_f = stmt_a.value; one = call_f.args[0]
stmt_b = root.body[1]; if_c = root.body[2]; d5 = if_c.body[0]; e6 = if_c.body[1]; g7 = root.body[3]; h8 = root.body[4]
# candidate rewrites: (old, new) with marker names
C = {
 "r_stmt_a": (rng(stmt_a), "M1 = 0"),
 "r_call_f": (rng(call_f), "M2"),
 "r_one":    (rng(one), "M3"),
 "r_stmt_b": (rng(stmt_b), "M4 = 0"),
 "del_d5":   (rng(d5), ""),
 "r_e6":     (rng(e6), "M5 = 0"),
 "r_g7":     (rng(g7), "M6 = 0"),
 "bad_h8":   (rng(h8), "((("),
 "r_h8":     (rng(h8), "M7 = 0"),
 "ins_b":    (core.Range(rng(stmt_b).start, rng(stmt_b).start), "M8 = 0\n"),
}
def model(groups):
    """groups: list (per rule) of list of (name, txn or None) in yield order"""
    cnt = -100000000
    txns = {}  # (k, num) -> [names]
    for k, g in enumerate(groups):
        for name, t in g:
            cnt += 1
            num = cnt if t is None else t
            txns.setdefault((k, num), []).append(name)
    # dedupe: later transaction with identical rewrite tuple dropped
    seen = set(); dropped = set()
    for key in sorted(txns):
        tup = tuple(C[n] for n in txns[key])
        if tup in seen: dropped.add(key)
        seen.add(tup)
    accepted = []  # (key, name)
    for key in sorted(txns):
        if key in dropped: continue
        names = sorted(set(txns[key]), key=lambda n: C[n])
        rs = [C[n][0] for n in names]
        if any(core.has_ignore_comment(BASE, r) for r in rs): continue
        ov = lambda a,b: a.start < b.end and b.start < a.end
        if any(ov(rs[i], rs[j]) for i in range(len(rs)) for j in range(i+1, len(rs))): continue
        if any(ov(r, C[n2][0]) for r in rs for _, n2 in accepted): continue
        accepted.extend((key, n) for n in names)
    return accepted
def impl(groups):
    funcs = []
    for k, g in enumerate(groups):
        def mk(g=g):
            def rule(source):
                for name, t in g:
                    old, new = C[name]
                    if t is None: yield old, new
                    else: yield old, new, t
            rule.__name__ = f"rule{k}"
            return rule
        funcs.append((mk(), [BASE], {}))
    sched = processing._schedule_rewrites(BASE, funcs)
    inv = {v: k for k, v in C.items()}
    acc = [((t.group_number, t.transaction_number), inv[(r.old, r.new)]) for t, (rg, r) in sched]
    try:
        out = processing._apply_rewrites(BASE, sched)
    except Exception as e:
        out = "EXC %s" % type(e).__name__
    return acc, out
names = list(C)
n = bad = 0
for size in (1, 2, 3):
    for subset in itertools.combinations(names, size):
        for perm in itertools.permutations(subset):
            # transaction assignment: each rewrite gets None or 0 or 1
            for tx in itertools.product((None, 0, 1), repeat=size):
                for split in range(size + 1) if size > 1 else (size,):
                    g0 = list(zip(perm[:split], tx[:split])); g1 = list(zip(perm[split:], tx[split:]))
                    groups = [g for g in (g0, g1) if g] if split not in (0,) else [g1]
                    if split == 0 and size > 1: continue
                    m = sorted(model(groups)); (a, out) = impl(groups); a = sorted(a)
                    n += 1
                    if m != a:
                        bad += 1
                        if bad <= 8: print("DISAGREE", groups, "\n  model", m, "\n  impl ", a)
print("cases", n, "disagreements", bad)

# second pass: end-to-end output checks
import collections
stats = collections.Counter()
MARK = {"r_stmt_a":"M1","r_call_f":"M2","r_one":"M3","r_stmt_b":"M4","r_e6":"M5","r_g7":"M6","r_h8":"M7","ins_b":"M8"}
examples = {}
for size in (1,2,3):
    for subset in itertools.combinations(names, size):
        for tx in itertools.product((None, 0), repeat=size):
            groups=[list(zip(subset, tx))]
            m = model(groups); acc_names = {n for _, n in m}
            a, out = impl(groups)
            if out.startswith("EXC"):
                stats["crash"] += 1; examples.setdefault("crash", groups); continue
            # model output
            txt = BASE
            for n_ in sorted(acc_names, key=lambda n: (C[n][0], C[n][1]), reverse=True):
                r, new = C[n_]; txt = txt[:r.start] + new + txt[r.end:]
            valid = core.is_valid_python(txt)
            if not valid:
                if out == BASE: stats["rollback_ok"] += 1
                else: stats["rollback_BAD"] += 1; examples.setdefault("rollback_BAD", (groups, out))
                continue
            try:
                same = ast.dump(ast.parse(out)) == ast.dump(ast.parse(txt))
            except SyntaxError:
                same = False
            stats["ast_equal" if same else "ast_DIFF"] += 1
            if not same: examples.setdefault("ast_DIFF", (groups, out, txt))
print(stats)
for k,v in examples.items(): print(k, v)
