import ast, itertools, io, contextlib, collections, sys, signal, textwrap
from pyrefact import core, fixes, logs
logs.set_level(100)
CONDS = ["True", "False", "p", "not p", "q"]
ITERS = ["()", "(1,)", "xs"]
LEAVES_ANY = ['print("o")', "return 1", 'raise E("r")', "assert p", "pass"]
LEAVES_LOOP = ["break", "continue"]
def ind(s): return textwrap.indent(s, "    ")
def stmts(depth, in_loop):
    for l in LEAVES_ANY: yield l
    if in_loop:
        for l in LEAVES_LOOP: yield l
    if depth == 0: return
    for c in CONDS:
        for b in bodies(depth-1, in_loop):
            yield f"if {c}:\n{ind(b)}"
            for b2 in bodies(depth-1, in_loop, small=True):
                yield f"if {c}:\n{ind(b)}\nelse:\n{ind(b2)}"
    for c in ["True", "False", "p"]:
        for b in bodies(depth-1, True):
            yield f"while {c}:\n{ind(b)}"
    for it in ITERS:
        for b in bodies(depth-1, True):
            yield f"for v in {it}:\n{ind(b)}"
    for b in bodies(depth-1, in_loop, small=True):
        yield f"with cm():\n{ind(b)}"
        yield f"try:\n{ind(b)}\nexcept E:\n    print('h')"
def bodies(depth, in_loop, small=False):
    ss = list(stmts(depth, in_loop))
    for s in ss: yield s
    if not small and depth == 0:
        for a in ['print("o")', "assert q"]:
            for s in ss: yield a + "\n" + s
PRE = '''
import contextlib
class E(Exception): pass
@contextlib.contextmanager
def cm():
    yield
'''
DRV = '''
for p in (False, True):
    for q in (False, True):
        for xs in ((), (1, 2)):
            try:
                print(p, q, len(xs), f(p, q, xs))
            except E as e:
                print(p, q, len(xs), "E", e)
            except AssertionError:
                print(p, q, len(xs), "A")
'''
class TO(Exception): pass
def run(src):
    buf = io.StringIO()
    def h(*a): raise TO()
    signal.signal(signal.SIGALRM, h); signal.setitimer(signal.ITIMER_REAL, 0.2)
    try:
        with contextlib.redirect_stdout(buf):
            exec(compile(src, "<c>", "exec"), {"__name__": "m"})
        return ("ok", buf.getvalue())
    except TO: return ("timeout", "")
    except BaseException as e: return ("exc:" + type(e).__name__, buf.getvalue())
    finally: signal.setitimer(signal.ITIMER_REAL, 0)
stats = collections.Counter(); ex = collections.defaultdict(list)
shapes = list(dict.fromkeys(stmts(2, False)))
print("shapes", len(shapes))
import time; t0 = time.time()
for s in shapes[:: max(1, len(shapes)//6000)]:
    prog = PRE + "def f(p, q, xs):\n" + ind(s) + '\n    print("after")\n    return "end"\n' + DRV
    o = run(prog)
    if o[0] != "ok": stats["orig_" + o[0]] += 1; continue
    # oracle 1: is_blocking
    node = ast.parse(s).body[0]
    try: blk = core.is_blocking(node)
    except Exception as e: stats["is_blocking_exc:" + type(e).__name__] += 1; blk = False
    if blk and "after" in o[1]:
        stats["is_blocking_WRONG"] += 1
        if len(ex["blk"]) < 6: ex["blk"].append(s)
    for name in ("delete_unreachable_code", "remove_dead_ifs", "delete_pointless_statements", "remove_redundant_else", "swap_if_else", "breakout_common_code_in_ifs"):
        for f in (core.parse, core.is_valid_python): f.cache_clear()
        try: out = getattr(fixes, name)(prog)
        except BaseException as e:
            stats[name + ":crash:" + type(e).__name__] += 1
            if len(ex[name+"crash"]) < 3: ex[name+"crash"].append(s)
            continue
        if out == prog: stats[name + ":nochange"] += 1; continue
        o2 = run(out)
        if o2 == o: stats[name + ":ok"] += 1
        else:
            stats[name + ":VIOL"] += 1
            if len(ex[name]) < 4: ex[name].append((s, out[len(PRE):out.find("for p in")], o2[0]))
print(round(time.time()-t0,1), "s")
for k in sorted(stats): print(k, stats[k])
for k, v in ex.items():
    print("==", k)
    for x in v: print(x if isinstance(x, str) else "\n".join(map(str, x))); print("  --")
