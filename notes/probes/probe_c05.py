import functools, sys, ast, json, collections, time, os, warnings
warnings.simplefilter("ignore")
_orig = functools.lru_cache
REG = []
def lru_cache(maxsize=128, typed=False):
    caller = sys._getframe(1).f_globals.get("__name__", "")
    if not caller.startswith("pyrefact"): return _orig(maxsize, typed)
    def deco(f):
        cache = {}
        def wrapper(*a, **k):
            key = (a, tuple(sorted(k.items())))
            try: hit = key in cache
            except TypeError: return f(*a, **k)
            if hit:
                v = cache.pop(key); cache[key] = v; return v
            v = f(*a, **k); cache[key] = v
            if maxsize is not None and len(cache) > maxsize: cache.pop(next(iter(cache)))
            return v
        wrapper.cache = cache; wrapper.cache_clear = cache.clear; wrapper.__wrapped__ = f
        functools.update_wrapper(wrapper, f); REG.append((f.__module__, f.__name__, wrapper)); return wrapper
    return deco
functools.lru_cache = lru_cache
import importlib, inspect
import pyrefact.main
from pyrefact import core, logs
logs.set_level(100)
os.chdir("/tmp/probe/t1")
mods = ["fixes","performance","performance_numpy","performance_pandas","symbolic_math","object_oriented","abstractions","tracing"]
rules=[]
for m in mods:
    mod = importlib.import_module("pyrefact."+m)
    for n,o in vars(mod).items():
        if callable(o) and getattr(o,"__module__",None)==mod.__name__ and not isinstance(o,type) and not n.startswith("_"):
            ps=list(inspect.signature(o).parameters)
            if ps and ps[0]=="source" and n not in ("get_undefined_variables","create_abstractions"):
                rules.append((m+"."+n,o,ps[1:]))
def clear():
    for _,_,w in REG: w.cache_clear()
def unfaithful():
    bad = []
    for (a,k), tree in core.parse.cache.items():
        try: fresh = ast.parse(a[0])
        except SyntaxError: continue
        if ast.dump(tree, include_attributes=True) != ast.dump(fresh, include_attributes=True): bad.append(a[0])
    return bad
ex = json.load(open("/tmp/probe/examples.json"))
st = collections.Counter(); per_rule_unf = collections.Counter(); per_rule_twice = collections.Counter(); samples = {}
t0 = time.time()
for e in ex:
    src = e["input"]
    try: ast.parse(src)
    except SyntaxError: continue
    for name, f, extra in rules:
        kw = {}
        if "preserve" in extra: kw["preserve"] = frozenset()
        if "root_is_static" in extra: kw["root_is_static"] = True
        clear()
        try: r1 = f(src, **kw)
        except BaseException as x: st["crash"] += 1; continue
        st["ops"] += 1
        bad = unfaithful()
        if bad:
            per_rule_unf[name] += 1; samples.setdefault(("unf", name), (src, bad[0] == src))
        try: r2 = f(src, **kw)
        except BaseException as x: r2 = "EXC " + type(x).__name__
        if r1 != r2:
            per_rule_twice[name] += 1; samples.setdefault(("twice", name), src)
print("time", round(time.time() - t0, 1), st)
print("UNFAITHFUL by rule:", dict(per_rule_unf))
print("TWICE-DIFF by rule:", dict(per_rule_twice))
for k, v in samples.items():
    if k[0] == "twice": print(k, repr(v[:200]))
