import ast, itertools, collections, re, warnings
warnings.simplefilter("ignore")
from pyrefact import pattern_matching as pm, logs
logs.set_level(100)
KINDS = {
 "name": ("zz", "zz"),
 "call": ("f(x, 1)", "f({{...*}})"),
 "paren_multiline": ("(aa +\n    bb)", "aa + bb"),
 "assign": ("k = f(x)", "k = {{v}}"),
 "if_block": ("if aa:\n    f(x)\n    g()", None),
 "decorated_def": ("@dec\n@dec2(1)\ndef fn(a):\n    return a", None),
 "decorated_cls": ("@dec\nclass Cl:\n    y = 1", None),
 "with": ("with cm() as h:\n    f(h)", None),
 "string": ("'lit'", "'lit'"),
 "lambda": ("lambda a: a + 1", "lambda {{a}}: {{b}}"),
}
def indent(code, n): return "\n".join((" " * n + l if l else l) for l in code.split("\n"))
def layouts(code, is_stmt_block):
    yield "plain", code + "\n"
    yield "no_trailing_newline", code
    yield "after_stmt", "q = 0\n" + code + "\n"
    yield "before_stmt", code + "\nq = 0\n"
    yield "blank_lines_before", "\n\n\n" + code + "\n"
    yield "trailing_blanks", code.replace("\n", "  \n") + "   \n"
    yield "indented_in_if", "if q:\n" + indent(code, 4) + "\n"
    yield "indented_in_def2", "def o():\n    if q:\n" + indent(code, 8) + "\n"
    if not is_stmt_block:
        yield "after_semicolon", "q = 0; " + code + "\n"
    yield "crlf", ("q = 0\n" + code + "\n").replace("\n", "\r\n")
    yield "multibyte_before_line", "s = 'é→'\n" + code + "\n"
    if not is_stmt_block:
        yield "multibyte_same_line", "s = 'é'; " + code + "\n"
    yield "formfeed_in_literal", "s = 'a\x0cb'\n" + code + "\n"
    yield "ls_in_literal", "s = 'a\u2028b'\n" + code + "\n"
    yield "formfeed_between", "q = 0\n\x0c\n" + code + "\n"
    yield "comment_multibyte", "# é comment\n" + code + "\n"
def lines_py(src):
    return re.findall(r"[^\r\n]*(?:\r\n|\n|\r|$)", src)
def ref_span(node, src):
    ls = lines_py(src)
    def off(lineno, col):
        line = ls[lineno - 1]
        return sum(len(l) for l in ls[:lineno - 1]) + len(line.encode()[:col].decode())
    start_node = node
    decs = getattr(node, "decorator_list", None)
    start = off(node.lineno, node.col_offset)
    if decs:
        d0 = min(decs, key=lambda d: (d.lineno, d.col_offset))
        start = off(d0.lineno, d0.col_offset) - 1   # the '@'
    return start, off(node.end_lineno, node.end_col_offset)
st = collections.Counter(); bad = collections.defaultdict(list)
for kind, (code, wpat) in KINDS.items():
    is_block = "\n" in code and kind != "paren_multiline"
    for lname, src in layouts(code if kind != "name" else "zz", is_block):
        if kind in ("name", "call", "paren_multiline", "string", "lambda") :
            pass
        try: tree = ast.parse(src)
        except SyntaxError: st["layout_invalid"] += 1; continue
        for pat in filter(None, (code, wpat)):
            try: ms = list(pm.finditer(pat, src))
            except Exception as e:
                st["exc"] += 1; bad["exc"].append((kind, lname, pat, repr(e)[:60])); continue
            if not ms: st["nomatch"] += 1; bad["nomatch"].append((kind, lname, pat)); continue
            for m in ms:
                node = m.root if not isinstance(m.root, list) else m.root
                rs, re_ = ref_span(m.groups[0], src) if hasattr(m.groups[0], "lineno") else (None, None)
                ok = (m.span.start, m.span.end) == (rs, re_) and m.string == src[rs:re_]
                # lineno/col of start
                pre = src[:m.span.start]; ls = lines_py(pre)
                exp_line = len([l for l in ls if l.endswith(("\n", "\r"))]) + 1
                exp_col = len(pre) - sum(len(l) for l in ls if l.endswith(("\n", "\r")))
                ok2 = (m.lineno, m.col_offset) == (exp_line, exp_col)
                st["ok" if ok and ok2 else ("span_BAD" if not ok else "linecol_BAD")] += 1
                if not (ok and ok2): bad[lname].append((kind, pat[:15], m.span, (rs, re_), (m.lineno, m.col_offset), (exp_line, exp_col)))
print(st)
for k, v in bad.items(): print(k, len(v), v[:3])
