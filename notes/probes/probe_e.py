import sys, time, importlib, inspect
import pyrefact.main
from pyrefact import logs; logs.set_level(100)
mods = ["fixes","performance","performance_numpy","performance_pandas","symbolic_math","object_oriented","abstractions","tracing"]
rules=[]
for m in mods:
    mod = importlib.import_module("pyrefact."+m)
    for n,o in vars(mod).items():
        if callable(o) and getattr(o,"__module__",None)==mod.__name__ and not isinstance(o,type) and not n.startswith("_"):
            ps=list(inspect.signature(o).parameters)
            if ps and ps[0]=="source" and n not in ("get_undefined_variables","create_abstractions"):
                rules.append((m+"."+n,o,ps[1:]))
src = "import os\nr = []\nfor i in range(10):\n    if i % 2 == 0 and i > 1 and i > 0:\n        r.append(i * i)\nd = {}\nd['a'] = 1\ndef f(a, b):\n    if a > b:\n        return True\n    return False\nprint(r, d, f(1, 2), sum([k for k in range(4)]))\n"
tot=0; slow=[]
for name,f,extra in rules:
    kw={}
    if "preserve" in extra: kw["preserve"]=frozenset()
    if "root_is_static" in extra: kw["root_is_static"]=True
    t0=time.perf_counter()
    try:
        out=f(src,**kw)
    except Exception as e:
        out="EXC %r"%e
    dt=time.perf_counter()-t0; tot+=dt
    slow.append((dt,name,out!=src))
slow.sort(reverse=True)
print("total",round(tot,3),"n",len(rules))
for x in slow[:12]: print(x)
print(sum(1 for x in slow if x[2]),"fired")
import io, contextlib
t0=time.perf_counter()
for i in range(1000):
    buf=io.StringIO()
    with contextlib.redirect_stdout(buf):
        exec(compile(src,"<c>","exec"),{"__name__":"__main__"})
print("exec per prog ms", (time.perf_counter()-t0))
