import functools, sys, ast
_orig = functools.lru_cache
REG = []
def lru_cache(maxsize=128, typed=False):
    caller = sys._getframe(1).f_globals.get("__name__", "")
    if not caller.startswith("pyrefact"):
        return _orig(maxsize, typed)
    if callable(maxsize):  # bare decorator
        f = maxsize; return lru_cache(128)(f)
    def deco(f):
        cache = {}
        def wrapper(*a, **k):
            key = (a, tuple(sorted(k.items())))
            if key in cache:
                v = cache.pop(key); cache[key] = v; return v
            v = f(*a, **k)
            cache[key] = v
            if maxsize is not None and len(cache) > maxsize:
                cache.pop(next(iter(cache)))
            return v
        wrapper.cache = cache
        wrapper.cache_clear = cache.clear
        wrapper.__wrapped__ = f
        functools.update_wrapper(wrapper, f)
        REG.append((f.__module__, f.__name__, wrapper))
        return wrapper
    return deco
functools.lru_cache = lru_cache
import pyrefact.main
from pyrefact import core, object_oriented, performance, fixes, logs
logs.set_level(100)
print([(m,n) for m,n,_ in REG])
def unfaithful():
    bad = []
    for (a,k), tree in core.parse.cache.items():
        src = a[0]
        if ast.dump(tree, include_attributes=True) != ast.dump(ast.parse(src), include_attributes=True):
            bad.append(src)
    return bad
src = "class A:\n    def f(self, x):\n        return x + 1\nprint(A().f(2))\n"
object_oriented.remove_unused_self_cls(src)
print("unfaithful after remove_unused_self_cls:", unfaithful())
for _,_,w in REG: w.cache_clear()
src2 = "print(list(reversed(sorted([3,1,2]))))\n"
performance.remove_redundant_chained_calls(src2)
print("unfaithful:", unfaithful())
for _,_,w in REG: w.cache_clear()
src3 = "d = {1: [2]}\nprint({x: d[1][x] for x in d[1].keys()})\n"
print(fixes.implicit_dict_keys_values_items(src3))
print("unfaithful:", unfaithful())
