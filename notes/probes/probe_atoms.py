import sys, os, io, contextlib, importlib, inspect, collections, signal, warnings
warnings.simplefilter("ignore")
sys.path.insert(0, "/tmp/probe")
from atoms_draft import A, PRELUDE
import pyrefact.main
main = sys.modules["pyrefact.main"]
from pyrefact import core, logs, tracing
logs.set_level(100)
os.chdir("/tmp/probe/t4"); open("fixture.txt", "w").write("hello\n")
PRE = PRELUDE + "FIXTURE = 'fixture.txt'\n"
mods = ["fixes","performance","performance_numpy","performance_pandas","symbolic_math","object_oriented","abstractions","tracing"]
rules=[]
for m in mods:
    mod = importlib.import_module("pyrefact."+m)
    for n,o in vars(mod).items():
        if callable(o) and getattr(o,"__module__",None)==mod.__name__ and not isinstance(o,type) and not n.startswith("_"):
            ps=list(inspect.signature(o).parameters)
            if ps and ps[0]=="source" and n not in ("get_undefined_variables","create_abstractions"):
                rules.append((n,o,ps[1:]))
def run(src):
    buf = io.StringIO()
    for h in list(logging_root.handlers): logging_root.removeHandler(h)
    try:
        with contextlib.redirect_stdout(buf): exec(compile(src, "<c>", "exec"), {"__name__": "__main__"})
        return ("ok", buf.getvalue())
    except BaseException as e: return ("exc:" + type(e).__name__ + ":" + str(e)[:60], buf.getvalue())
import logging; logging_root = logging.getLogger()
fired = collections.defaultdict(list); viol = []; bad_atoms = []
for name, (code, obs) in A.items():
    prog = PRE + code + ("print(%s)\n" % obs if obs else "") + "print(LOG)\n"
    o = run(prog)
    if o[0] != "ok": bad_atoms.append((name, o[0])); continue
    for rn, f, extra in rules:
        kw = {}
        if "preserve" in extra: kw["preserve"] = frozenset()
        if "root_is_static" in extra: kw["root_is_static"] = True
        for c in (core.parse, core.is_valid_python, core.compile_template): c.cache_clear()
        try: out = f(prog, **kw)
        except BaseException as e: viol.append((rn, name, "crash:" + type(e).__name__)); continue
        if out == prog: continue
        o2 = run(out)
        ok = o2 == o
        fired[rn].append((name, ok))
        if not ok: viol.append((rn, name, o2[0] if o2[0] != "ok" else "stdout_diff"))
    for c in (core.parse, core.is_valid_python, core.compile_template, tracing.trace_origin): c.cache_clear()
    try:
        out = main.format_code(prog, max_line_length=100); o2 = run(out)
        if o2 != o: viol.append(("format_code", name, o2[0] if o2[0] != "ok" else "stdout_diff"))
    except BaseException as e: viol.append(("format_code", name, "crash:" + type(e).__name__))
print("atoms", len(A), "bad atoms", bad_atoms)
never = [rn for rn, _, _ in rules if rn not in fired]
print("rules fired:", len(fired), "of", len(rules)); print("never fired:", never)
print("rules with no passing firing:", [rn for rn, v in fired.items() if not any(ok for _, ok in v)])
print("violations:", len(viol))
for x in viol: print("  ", x)
