import ast, itertools, collections, warnings, sys
warnings.simplefilter("ignore")
import rmspace
from pyrefact import fixes, processing, logs
import pyrefact.main; main = sys.modules["pyrefact.main"]
logs.set_level(100)
LINES = ["a", "", "  ", "\ta", "a  ", "a\t", "# c"]
KINDS = {"sq3": ("'''", "'''"), "dq3": ('"""', '"""'), "raw3": ("r'''", "'''"), "bytes3": ("b'''", "'''"), "f3": ("f'''{v}", "'''")}
def bodies():
    for n in (1, 2, 3):
        for seq in itertools.product(LINES, repeat=n): yield "\n".join(seq)
def feats(body):
    f = set()
    if "\t" in body: f.add("tab")
    if any(l.endswith((" ", "\t")) and l.strip() for l in body.split("\n")): f.add("trailing_ws")
    if any(l != "" and not l.strip() for l in body.split("\n")): f.add("ws_only_line")
    if "\n\n" in body: f.add("blank_line")
    return frozenset(f)
STAGES = {
 "expandtabs": lambda s: s.expandtabs(4),
 "rmspace": rmspace.format_str,
 "blank_lines": fixes.fix_too_many_blank_lines,
 "line_lengths": lambda s: fixes.fix_line_lengths(s, max_line_length=100),
 "import_spacing": fixes.fix_import_spacing,
 "format_code": lambda s: main.format_code(s, max_line_length=100),
}
st = collections.Counter(); byfeat = collections.defaultdict(collections.Counter)
for kname, (o, c) in KINDS.items():
    for body in bodies():
        for pos, tmpl in (("module", "v = 1\nw = {lit}\nprint(repr(w))\n"), ("function", "v = 1\ndef g():\n    w = {lit}\n    return w\nprint(repr(g()))\n")):
            src = tmpl.format(lit=o + body + c)
            try: t0 = ast.dump(ast.parse(src))
            except SyntaxError: st["invalid_input"] += 1; continue
            for sname, stage in STAGES.items():
                try: out = stage(src)
                except BaseException as e: st[sname + ":crash"] += 1; continue
                try: same = ast.dump(ast.parse(out)) == t0
                except SyntaxError: same = False
                if sname == "format_code":
                    # module-level w renamed to W etc: compare by execution instead
                    import io, contextlib
                    def run(s):
                        b = io.StringIO()
                        try:
                            with contextlib.redirect_stdout(b): exec(compile(s, "<c>", "exec"), {})
                            return b.getvalue()
                        except BaseException as e: return "EXC " + type(e).__name__
                    same = run(src) == run(out)
                st[sname + (":ok" if same else ":DIFF")] += 1
                if not same: byfeat[sname][feats(body)] += 1
for k in sorted(st): print(k, st[k])
for s, c in byfeat.items():
    print(s, {tuple(sorted(k)): v for k, v in c.most_common(8)})
