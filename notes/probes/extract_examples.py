import ast, sys, json, pathlib, hashlib
out = []
for path in sorted(pathlib.Path("/repo/tests").rglob("*.py")):
    try: tree = ast.parse(path.read_text())
    except SyntaxError: continue
    for node in ast.walk(tree):
        if isinstance(node, ast.Tuple) and len(node.elts) in (2, 3) and all(isinstance(e, ast.Constant) and isinstance(e.value, str) for e in node.elts[:2]):
            a, b = node.elts[0].value, node.elts[1].value
            if "\n" in a or "\n" in b:
                out.append({"file": str(path.relative_to("/repo")), "line": node.lineno, "input": a, "expected": b})
seen = set(); uniq = []
for o in out:
    k = hashlib.sha1(o["input"].encode()).hexdigest()
    if k in seen: continue
    seen.add(k); uniq.append(o)
json.dump(uniq, open("/tmp/probe/examples.json", "w"))
print(len(out), len(uniq))
