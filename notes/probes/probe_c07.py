import ast, itertools, collections, sys, symtable, warnings, multiprocessing as mp, os
warnings.simplefilter("ignore")
STYLES = {"snake": "some_name", "camel": "someName", "upper": "SOME_NAME", "private": "_some_name", "dunder": "__some_name__", "under": "_", "pascal": "SomeName"}
def items():
    for st, nm in STYLES.items():
        for usage in ("unused", "used"):
            use = f"print({nm})\n" if usage == "used" else ""
            yield (f"func:{st}:{usage}", f"def {nm}():\n    return 1\n" + (f"print({nm}())\n" if usage == "used" else ""), {nm}, {})
            yield (f"class:{st}:{usage}", f"class {nm}:\n    pass\n" + (f"print({nm}.__name__ is not None)\n" if usage == "used" else ""), {nm}, {})
            yield (f"assign:{st}:{usage}", f"{nm} = 1\n" + use, {nm}, {})
            yield (f"annassign:{st}:{usage}", f"{nm}: int = 1\n" + use, {nm}, {})
            yield (f"augassign:{st}:{usage}", f"{nm} = 1\n{nm} += 1\n" + use, {nm}, {})
            yield (f"tuple:{st}:{usage}", f"{nm}, other_{st} = 1, 2\n" + use, {nm, f"other_{st}"}, {})
        if st in ("snake", "camel", "private", "upper"):
            yield (f"clsmembers:{st}", f"class Holder{st.title()}:\n    {nm} = 1\n    def meth_{nm}(self):\n        return self.{nm}\n    def {nm}_free(self, x):\n        return x\n    @staticmethod\n    def {nm}_static(x):\n        return x\nprint(Holder{st.title()}().meth_{nm}())\n",
                   {f"Holder{st.title()}"}, {f"Holder{st.title()}": {nm, f"meth_{nm}", f"{nm}_free", f"{nm}_static"}})
    yield ("dupfuncs", "def first_fn(x):\n    return x + 1\ndef second_fn(y):\n    return y + 1\nprint(first_fn(1), second_fn(2))\n", {"first_fn", "second_fn"}, {})
    yield ("posthoc_attr", "class Late:\n    x = 1\nLate.y = 2\nprint(Late.y)\n", {"Late"}, {"Late": {"x"}})
def defined(src):
    t = symtable.symtable(src, "<m>", "exec")
    top = {s.get_name() for s in t.get_symbols() if s.is_assigned() or s.is_imported() or s.is_namespace()}
    cls = {}
    for c in t.get_children():
        if c.get_type() == "class":
            cls[c.get_name()] = {s.get_name() for s in c.get_symbols() if s.is_assigned() or s.is_namespace() or s.is_imported()}
    return top, cls
def work(case):
    import pyrefact.main
    main = sys.modules["pyrefact.main"]
    from pyrefact import logs, core; logs.set_level(100)
    key, src, top, cls = case
    for c in (core.parse, core.is_valid_python): c.cache_clear()
    try: out = main.format_code(src, safe=True, max_line_length=100)
    except BaseException as e: return (key, "crash:" + type(e).__name__, src, "")
    try: dtop, dcls = defined(out)
    except SyntaxError: return (key, "invalid", src, out)
    missing = sorted(top - dtop) + sorted(f"{c}.{m}" for c, ms in cls.items() for m in ms - dcls.get(c, set()))
    return (key, "MISSING:" + ",".join(missing) if missing else "ok", src, out)
if __name__ == "__main__":
    os.chdir("/tmp/probe/t1")
    its = list(items())
    cases = [(a[0], a[1], a[2], a[3]) for a in its]
    for a, b in itertools.combinations(its, 2):
        if a[2] & b[2]: continue
        cases.append((a[0] + "+" + b[0], a[1] + b[1], a[2] | b[2], {**a[3], **b[3]}))
    print("cases", len(cases))
    with mp.Pool(16) as p: rs = p.map(work, cases, chunksize=8)
    st = collections.Counter(r[1].split(":")[0] for r in rs); print(st)
    miss = collections.Counter(r[1] for r in rs if r[1].startswith("MISSING"))
    print(miss.most_common(15))
    singles = [r for r in rs if "+" not in r[0] and r[1] != "ok"]
    for r in singles[:12]: print(r[0], r[1])
