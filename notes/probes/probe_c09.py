import json, sys, time, collections, multiprocessing as mp, os
def work(item):
    import sys
    import pyrefact.main
    main = sys.modules["pyrefact.main"]
    from pyrefact import logs, core, tracing
    logs.set_level(100)
    idx, src = item
    res = {"idx": idx}
    seq = [src]
    t0 = time.process_time()
    try:
        for i in range(6):
            for c in (core.parse, core.is_valid_python, core.compile_template, core._group_nodes_in_scope, core._get_line_start_charnos, tracing.trace_origin): c.cache_clear()
            seq.append(main.format_code(seq[-1], max_line_length=100))
            if seq[-1] == seq[-2]: break
    except BaseException as e:
        res["exc"] = type(e).__name__ + ": " + str(e)[:80]; res["at"] = len(seq)
    res["cpu"] = time.process_time() - t0
    res["steps"] = len(seq) - 1
    res["fixed"] = len(seq) >= 2 and seq[-1] == seq[-2]
    res["cycle"] = len(set(seq)) < len(seq) and not res["fixed"]
    import ast
    def valid(s):
        try: ast.parse(s); return True
        except SyntaxError: return False
    res["in_valid"] = valid(seq[0]); res["out_valid"] = all(valid(s) for s in seq[1:])
    return res
if __name__ == "__main__":
    ex = json.load(open("/tmp/probe/examples.json"))
    os.chdir("/tmp/probe/t1")
    items = [(i, e["input"]) for i, e in enumerate(ex)]
    t0 = time.time()
    with mp.Pool(16) as p: rs = p.map(work, items, chunksize=4)
    print("wall", round(time.time() - t0, 1))
    st = collections.Counter()
    for r in rs:
        if "exc" in r: st["exc"] += 1
        elif not r["fixed"]: st["notfixed_in_6"] += 1
        else: st["steps=%d" % r["steps"]] += 1
        if r["in_valid"] and not r["out_valid"]: st["INVALID_OUT"] += 1
        if not r["in_valid"]: st["in_invalid"] += 1
    print(st)
    for r in rs:
        if "exc" in r: print(r["idx"], ex[r["idx"]]["file"], r["exc"], "at", r["at"])
    print("max cpu", max(r["cpu"] for r in rs), "sum cpu", sum(r["cpu"] for r in rs))
    for r in rs:
        if "exc" not in r and not r["fixed"]: print("NOTFIXED", r["idx"], ex[r["idx"]]["file"], ex[r["idx"]]["line"])
