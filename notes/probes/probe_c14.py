import ast, itertools, collections, copy, re, warnings
warnings.simplefilter("ignore")
from pyrefact import pattern_matching as pm, core, logs
logs.set_level(100)
PATS = [("f({{x}})", "g({{x}})"), ("f({{x}})", "f({{x}})"), ("f({{x}})", "h({{x}}, {{x}})"), ("f({{x}})", "k()"),
        ("{{a}} + {{b}}", "{{b}} + {{a}}"), ("{{a}} + {{b}}", "add({{a}}, {{b}})"), ("z = {{v}}", "z = wrap({{v}})"),
        ("f({{x}})", "{{x}} * 2")]
SRCS = ["q = 1\n", "f(a)\n", "y = f(a)\n", "f(f(a))\n", "f(a); f(b)\n", "f(a)\nf(b)\n", "if c:\n    f(a)\nelse:\n    f(b)\n",
        "def o():\n    return f(a) + f(b)\n", "y = f(a + b)\n", "y = a + b + c\n", "z = f(1 + 2)\n", "f(a)  # pyrefact: ignore\nf(b)\n",
        "y = [f(i) for i in f(xs)]\n", "y = (\n    f(a)\n    + f(b)\n)\n", "z = 1\nz = f(z)\n", "class K:\n    def m(self):\n        z = f(self)\n        return z\n"]
def inst_tree(repl, binds):
    """tree-level instantiation: parse repl with placeholders, substitute nodes"""
    src = repl
    for name in binds: src = src.replace("{{" + name + "}}", "__W_" + name + "__")
    t = ast.parse(src).body[0]
    t = t.value if isinstance(t, ast.Expr) else t
    class T(ast.NodeTransformer):
        def visit_Name(self, n):
            m = re.fullmatch(r"__W_(\w+)__", n.id)
            return copy.deepcopy(binds[m.group(1)]) if m else n
    return T().visit(t)
def inst_text(repl, binds):
    src = repl
    for name, node in binds.items(): src = src.replace("{{" + name + "}}", ast.unparse(node))
    t = ast.parse(src).body[0]
    return t.value if isinstance(t, ast.Expr) else t
def norm(tree): return ast.dump(ast.parse(ast.unparse(tree)))
def expected_set(src, pat, repl, count):
    ms = list(pm.finditer(pat, src))
    occ = []
    for m in ms:
        binds = {k: v for k, v in m.groups._asdict().items() if k != "root"} if hasattr(m.groups, "_asdict") else {}
        occ.append((m.span, m.groups[0], binds))
    exp = set()
    idx = range(len(occ))
    for r in range(0, len(occ) + 1):
        for sub in itertools.combinations(idx, r):
            if count and len(sub) > count: continue
            if any(occ[i][0].start < occ[j][0].end and occ[j][0].start < occ[i][0].end for i in sub for j in sub if i < j): continue
            for mode in (inst_tree, inst_text):
                tree = ast.parse(src)
                # map by position
                targets = {(occ[i][1].lineno, occ[i][1].col_offset, occ[i][1].end_lineno, occ[i][1].end_col_offset, type(occ[i][1]).__name__): occ[i][2] for i in sub}
                class R(ast.NodeTransformer):
                    def visit(self, n):
                        k = (getattr(n, "lineno", None), getattr(n, "col_offset", None), getattr(n, "end_lineno", None), getattr(n, "end_col_offset", None), type(n).__name__)
                        if k in targets:
                            try: return mode(repl, targets[k])
                            except SyntaxError: return n
                        return self.generic_visit(n)
                try: exp.add((len(sub), norm(R().visit(tree))))
                except Exception as e: pass
    return ms, exp
st = collections.Counter(); bad = []
for (pat, repl), src, count in itertools.product(PATS, SRCS, (0, 1, 2)):
    ms, exp = expected_set(src, pat, repl, count)
    try: out, n = pm.subn(pat, repl, src, count=count)
    except BaseException as e: st["crash:" + type(e).__name__] += 1; bad.append((pat, repl, src, count, "crash")); continue
    if not ms:
        st["nomatch_identical" if out == src else "nomatch_CHANGED"] += 1; continue
    try: got = norm(ast.parse(out))
    except SyntaxError: st["INVALID"] += 1; bad.append((pat, repl, src, count, out)); continue
    if any(got == e for _, e in exp):
        k = max(n_ for n_, e in exp if e == got)
        st["ok"] += 1
        if pat == repl and got != norm(ast.parse(src)): st["identity_CHANGED"] += 1
        if "ignore" in src and src.splitlines()[0] not in out.splitlines(): st["IGNORE_LOST"] += 1; bad.append((pat, repl, src, count, out))
    else:
        st["NOT_ADMISSIBLE"] += 1; bad.append((pat, repl, src, count, out))
print(st)
for b in bad[:12]: print(b)
