"""Surface alphabet for C07 / C08: small modules assembled from definable items, with independent
computation of the public surface (AST walk of the input) and of what is defined (symtable of the output)."""
from __future__ import annotations

import ast
import itertools
import symtable

STYLES = {"snake": "some_name", "camel": "someName", "upper": "SOME_NAME", "private": "_some_name",
          "dunder": "__some_name__", "under": "_", "pascal": "SomeName"}


def items():
    """-> list of (key, code, top-level names, {class: members})"""
    out = []
    for st, nm in STYLES.items():
        for usage in ("unused", "used"):
            use = "print(%s)\n" % nm if usage == "used" else ""
            out.append(("func:%s:%s" % (st, usage), "def %s():\n    return 1\n" % nm + ("print(%s())\n" % nm if usage == "used" else ""), {nm}, {}))
            out.append(("class:%s:%s" % (st, usage), "class %s:\n    pass\n" % nm + ("print(%s.__name__ is not None)\n" % nm if usage == "used" else ""), {nm}, {}))
            out.append(("assign:%s:%s" % (st, usage), "%s = 1\n" % nm + use, {nm}, {}))
            out.append(("annassign:%s:%s" % (st, usage), "%s: int = 1\n" % nm + use, {nm}, {}))
            out.append(("augassign:%s:%s" % (st, usage), "%s = 1\n%s += 1\n" % (nm, nm) + use, {nm}, {}))
            out.append(("tuple:%s:%s" % (st, usage), "%s, other_%s = 1, 2\n" % (nm, st) + use, {nm, "other_%s" % st}, {}))
        out.append(("asyncfunc:%s" % st, "async def %s():\n    return 1\n" % nm, {nm}, {}))
        if st in ("snake", "camel", "private", "upper"):
            out.append(("func_used_by_unused:%s" % st, "def %s():\n    return 1\ndef caller_of_%s():\n    return %s()\n" % (nm, st, nm), {nm, "caller_of_%s" % st}, {}))
            H = "Holder%s" % st.title()
            out.append(("clsmembers:%s" % st,
                        "class %s:\n    %s = 1\n    def meth_%s(self):\n        return self.%s\n    def %s_free(self, x):\n        return x\n"
                        "    @staticmethod\n    def %s_static(x):\n        return x\nprint(%s().meth_%s())\n" % (H, nm, nm, nm, nm, nm, H, nm),
                        {H}, {H: {nm, "meth_%s" % nm, "%s_free" % nm, "%s_static" % nm}}))
            out.append(("clsmembers_unused:%s" % st,
                        "class Quiet%s:\n    %s = 1\n    def %s_m(self):\n        return 2\n" % (st.title(), nm, nm),
                        {"Quiet%s" % st.title()}, {"Quiet%s" % st.title(): {nm, "%s_m" % nm}}))
    out.append(("dupfuncs", "def first_fn(x):\n    return x + 1\ndef second_fn(y):\n    return y + 1\nprint(first_fn(1), second_fn(2))\n", {"first_fn", "second_fn"}, {}))
    out.append(("dupfuncs_unused", "def third_fn(x):\n    return x * 3\ndef fourth_fn(y):\n    return y * 3\n", {"third_fn", "fourth_fn"}, {}))
    out.append(("posthoc_attr", "class Late:\n    x = 1\nLate.y = 2\nprint(Late.y)\n", {"Late"}, {"Late": {"x"}}))
    out.append(("static_used_via_self", "class Svc:\n    @staticmethod\n    def helper(x):\n        return x\n    def run(self):\n        return self.helper(1)\nprint(Svc().run())\n",
                {"Svc"}, {"Svc": {"helper", "run"}}))
    out.append(("constant_str", "GREETING = 'hello'\ndef greet():\n    return GREETING\nprint(greet())\n", {"GREETING", "greet"}, {}))
    out.append(("list_target", "[lt_a, lt_b] = [1, 2]\n", {"lt_a", "lt_b"}, {}))
    out.append(("starred_target", "st_a, *st_rest = [1, 2, 3]\n", {"st_a", "st_rest"}, {}))
    out.append(("chained_assign", "ch_a = ch_b = 0\n", {"ch_a", "ch_b"}, {}))
    # definitions placed after (and, in pairs, before) a module-level statement that control flow cannot pass, or only
    # seems unable to pass (family added after the seeded change C07-unreachable-walk-yields-module: unreachable-code
    # removal takes no preserve set, so in safe mode it must never see the module body)
    tail = "def ab_fn_%s():\n    return 1\nAB_VALUE_%s = 1\nclass AbCls%s:\n    ab_attr = 1\n    def ab_m(self):\n        return 2\n"
    blockers = {
        "raise": "raise RuntimeError('stop')\n",
        "assert_false": "assert False\n",
        "assert_zero_msg": "assert 0, 'never'\n",
        "while_true": "while True:\n    pass\n",
        "while_one_no_break": "while 1:\n    print('spin')\n",
        "if_else_raise": "import sys\nif sys.argv:\n    raise SystemExit(0)\nelse:\n    raise SystemExit(1)\n",
        "if_true_raise": "if True:\n    raise SystemExit(0)\n",
        "with_raise": "import contextlib\nwith contextlib.suppress(KeyError):\n    raise KeyError('k')\n",
        "try_raise_finally": "try:\n    raise KeyError('k')\nfinally:\n    print('f')\n",
        "for_raise": "for ab_i in (1, 2):\n    raise KeyError(ab_i)\n",
        "sys_exit": "import sys\nsys.exit(0)\n",
        "if_raise": "import sys\nif sys.argv:\n    raise SystemExit(0)\n",
        "while_true_break": "while True:\n    break\n",
        "try_raise_except": "try:\n    raise KeyError('k')\nexcept KeyError:\n    pass\n",
    }
    for k, code in blockers.items():
        t = k.title().replace("_", "")
        out.append(("after_blocker:%s" % k, code + tail % (k, k.upper(), t),
                    {"ab_fn_%s" % k, "AB_VALUE_%s" % k.upper(), "AbCls%s" % t}, {"AbCls%s" % t: {"ab_attr", "ab_m"}}))
    out.append(("nested_class", "class Outer:\n    class Meta:\n        k = 1\n    def om(self):\n        return 1\n", {"Outer"}, {"Outer": {"om"}}))  # the nested class itself is not part of the stated surface (methods and assigned attributes are)
    out.append(("cls_body_blocker", "class Guarded:\n    g_a = 1\n    if g_a:\n        g_b = 2\n    def g_m(self):\n        return 1\n    g_c = 3\n", {"Guarded"}, {"Guarded": {"g_a", "g_m", "g_c"}}))
    return out


def modules(max_items):
    its = items()
    for a in its:
        yield a[0], a[1], set(a[2]), dict(a[3])
    if max_items >= 2:
        for a, b in itertools.combinations(its, 2):
            if a[2] & b[2]:
                continue
            if (":under" in a[0] or ":under" in b[0]) and not (b[0].startswith(("dupfuncs", "clsmembers:camel")) or a[0].startswith(("dupfuncs", "clsmembers:camel"))):
                continue  # definitions named "_" are combined with two partners only (one root cause, see KF-C07-underscore)
            if b[0].startswith("after_blocker"):
                if not a[0].startswith("after_blocker"):  # the blocker goes FIRST: the partner's definitions follow it
                    yield b[0] + "+" + a[0], b[1] + a[1], a[2] | b[2], {**a[3], **b[3]}
                continue
            yield a[0] + "+" + b[0], a[1] + b[1], a[2] | b[2], {**a[3], **b[3]}
    if max_items >= 3:
        core = [i for i in its if i[0].split(":")[0] in ("func", "assign", "clsmembers", "dupfuncs", "class") and (":camel" in i[0] or ":snake" in i[0] or "dup" in i[0])]
        for a, b, c in itertools.combinations(core, 3):
            if (a[2] & b[2]) or (a[2] & c[2]) or (b[2] & c[2]):
                continue
            yield "+".join((a[0], b[0], c[0])), a[1] + b[1] + c[1], a[2] | b[2] | c[2], {**a[3], **b[3], **c[3]}


def module_by_key(key):
    its = {i[0]: i for i in items()}
    parts = [its[k] for k in key.split("+")]
    code = "".join(p[1] for p in parts)
    top = set().union(*[p[2] for p in parts])
    cls = {}
    for p in parts:
        cls.update(p[3])
    return code, top, cls


def _targets(t):
    if isinstance(t, ast.Name):
        yield t.id
    elif isinstance(t, (ast.Tuple, ast.List)):
        for e in t.elts:
            yield from _targets(e)
    elif isinstance(t, ast.Starred):
        yield from _targets(t.value)


def surface(src):
    """Public surface of a module by the letter of the property (AST walk)."""
    tree = ast.parse(src)
    top, cls = set(), {}

    def binds(body):
        names, defs = set(), set()
        for node in body:
            if isinstance(node, (ast.FunctionDef, ast.AsyncFunctionDef, ast.ClassDef)):
                defs.add(node.name)
            elif isinstance(node, ast.Assign):
                for t in node.targets:
                    names.update(_targets(t))
            elif isinstance(node, ast.AnnAssign) and node.value is not None:
                names.update(_targets(node.target))
            elif isinstance(node, ast.AugAssign):
                names.update(_targets(node.target))
        return names, defs

    n, d = binds(tree.body)
    top = n | d
    for node in tree.body:
        if isinstance(node, ast.ClassDef):
            n2, d2 = binds(node.body)
            cls[node.name] = n2 | d2
    return top, cls


def defined(src):
    """What a module defines, leniently (any binding form at module scope / in the class body)."""
    t = symtable.symtable(src, "<m>", "exec")
    top = {s.get_name() for s in t.get_symbols() if s.is_assigned() or s.is_imported() or s.is_namespace()}
    cls = {}
    for c in t.get_children():
        if c.get_type() == "class":
            cls.setdefault(c.get_name(), set()).update(
                s.get_name() for s in c.get_symbols() if s.is_assigned() or s.is_namespace() or s.is_imported())
    # attributes attached after the class body (Cls.attr = ...) also define Cls.attr
    for node in ast.parse(src).body:
        if isinstance(node, (ast.Assign, ast.AnnAssign, ast.AugAssign)):
            targets = node.targets if isinstance(node, ast.Assign) else [node.target]
            for tg in targets:
                if isinstance(tg, ast.Attribute) and isinstance(tg.value, ast.Name):
                    cls.setdefault(tg.value.id, set()).add(tg.attr)
    return top, cls


def missing(top, cls, out_src):
    dtop, dcls = defined(out_src)
    return sorted(top - dtop) + sorted("%s.%s" % (c, m) for c, ms in cls.items() for m in ms - dcls.get(c, set()))
