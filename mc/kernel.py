"""Kernel: parallel executor, evidence writer, replay files, known-findings matcher, CLI.

A property module (mc/props/cNN.py) provides

    ID, LEVEL, RULE (text), ASSUMPTIONS (list[str])
    units(tier)        -> iterable of JSON-able unit descriptors (the enumerated space, chunked)
    run_unit(unit)     -> UnitResult dict:
        n            evaluations in this unit
        nontrivial   list[str]  keys of the distinct non-trivial cases
        viol         list[violation]   violation = {key, site, kind, what, desc}
        stats        dict[str, int]    counters, summed
        samples      list              a few cases written out
        extra        anything JSON-able, handed to finish()
    replay(desc)       -> list[violation] for a single case descriptor (clean state)
    finish(tier, agg)  -> optional: dict merged into coverage (model-checking keys etc.)
"""
from __future__ import annotations

import argparse
import collections
import hashlib
import importlib
import json
import multiprocessing as mp
import os
import random
import signal
import sys
import time
import traceback

VERIF = os.path.dirname(os.path.dirname(os.path.abspath(__file__)))
EVIDENCE_DIR = os.environ.get("MC_EVIDENCE_DIR") or os.path.join(VERIF, "evidence")  # override: maintenance runs on mutants
REPLAY_DIR = os.path.join(VERIF, "replays")
KNOWN_FILE = os.path.join(VERIF, "known", "findings.json")
MAX_VIOLATION_LINES = 15


def key_of(obj) -> str:
    return hashlib.sha1(json.dumps(obj, sort_keys=True, default=str).encode()).hexdigest()[:16]


class CaseTimeout(BaseException):
    pass


class time_limit:
    """Alarm around one case; raises CaseTimeout (a BaseException). cpu=True counts the CPU time of this process
    (user + system), so a loaded machine cannot turn a slow case into a 'timeout'."""

    def __init__(self, seconds, cpu=False):
        self.seconds = seconds
        self.which, self.sig = (signal.ITIMER_PROF, signal.SIGPROF) if cpu else (signal.ITIMER_REAL, signal.SIGALRM)

    def _handler(self, signum, frame):
        raise CaseTimeout()

    def __enter__(self):
        self.old = signal.signal(self.sig, self._handler)
        signal.setitimer(self.which, self.seconds)

    def __exit__(self, *a):
        signal.setitimer(self.which, 0)
        signal.signal(self.sig, self.old)
        return False


def violation(site, kind, what, desc, key=None):
    return {
        "key": key or key_of(desc),
        "site": site,
        "kind": kind,
        "what": what[:300],
        "desc": desc,
    }


# ----------------------------------------------------------------------------------------------
# worker side

_MOD = None


def _worker_init(modname, env):
    global _MOD
    os.environ.update(env)
    from mc import boot

    boot.install()
    boot.new_scratch()
    _MOD = importlib.import_module(modname)
    if hasattr(_MOD, "worker_init"):
        _MOD.worker_init()


def _worker_run(unit):
    from mc import boot

    try:
        boot.clear_caches()
        r = _MOD.run_unit(unit)
        r.setdefault("n", 1)
        r.setdefault("nontrivial", [])
        r.setdefault("viol", [])
        r.setdefault("stats", {})
        r.setdefault("samples", [])
        return r
    except BaseException as e:  # harness error: never a verdict about pyrefact
        return {
            "harness_error": "".join(traceback.format_exception(type(e), e, e.__traceback__))[-3000:],
            "unit": unit,
            "n": 0,
            "nontrivial": [],
            "viol": [],
            "stats": {},
            "samples": [],
        }


# ----------------------------------------------------------------------------------------------
# known findings


def load_known(prop):
    if not os.path.exists(KNOWN_FILE):
        return []
    with open(KNOWN_FILE) as f:
        entries = json.load(f)
    out = []
    for e in entries:
        if e["property"] != prop or e.get("status") != "open":
            continue
        keys = set(e.get("keys", []))
        kf = e.get("keys_file")
        if kf:
            with open(os.path.join(VERIF, "known", kf)) as f:
                keys.update(line.strip() for line in f if line.strip())
        e = dict(e)
        e["_keys"] = keys
        out.append(e)
    return out


def match_known(v, known):
    for e in known:
        if e["site"] == v["site"] and e["kind"] == v["kind"] and v["key"] in e["_keys"]:
            return e
    return None


# ----------------------------------------------------------------------------------------------
# driver


def run_check(mod, tier, seed, nproc, triage=None, limit_units=None):
    from mc import boot

    t0 = time.time()
    prop = mod.ID
    units = list(mod.units(tier))
    if os.environ.get("MC_UNIT_FILTER"):  # debugging aid only
        flt = os.environ["MC_UNIT_FILTER"]
        units = [u for u in units if eval(flt, {"u": u})]
    if limit_units:
        units = units[:limit_units]
    rnd = random.Random(seed)
    rnd.shuffle(units)  # VERIF_SEED only permutes which worker gets which unit
    agg = {
        "n": 0,
        "nontrivial": set(),
        "viol": [],
        "stats": collections.Counter(),
        "samples": [],
        "extra": [],
        "harness_errors": [],
    }
    nproc = max(1, min(nproc, len(units)))
    ctx = mp.get_context("fork")
    env = {"MC_TIER": tier}
    chunk = max(1, min(32, len(units) // (nproc * 8) or 1))
    with ctx.Pool(nproc, initializer=_worker_init, initargs=(mod.__name__, env)) as pool:
        for r in pool.imap_unordered(_worker_run, units, chunksize=chunk):
            if "harness_error" in r:
                agg["harness_errors"].append((r["unit"], r["harness_error"]))
                continue
            agg["n"] += r["n"]
            agg["nontrivial"].update(r["nontrivial"])
            agg["viol"].extend(r["viol"])
            agg["stats"].update(r["stats"])
            if len(agg["samples"]) < 6:
                agg["samples"].extend(r["samples"][: 6 - len(agg["samples"])])
            if "extra" in r:
                agg["extra"].append(r["extra"])

    if agg["harness_errors"]:
        for u, err in agg["harness_errors"][:5]:
            print("HARNESS-ERROR unit=%s\n%s" % (json.dumps(u, default=str)[:300], err), file=sys.stderr)
        print("HARNESS-ERROR property=%s count=%d" % (prop, len(agg["harness_errors"])))
        return 2

    # dedupe violations by (key, site, kind)
    seen = {}
    for v in agg["viol"]:
        seen.setdefault((v["key"], v["site"], v["kind"]), v)
    viols = sorted(seen.values(), key=lambda v: (v["site"], v["kind"], v["key"]))

    known = load_known(prop)
    matched = collections.defaultdict(list)
    new = []
    for v in viols:
        e = match_known(v, known)
        if e is not None:
            matched[e["id"]].append(v)
        else:
            new.append(v)

    # confirm new violations from a clean state in this (different) process
    confirmed, unconfirmed, untried = [], [], []
    if new:
        boot.install()
        if hasattr(mod, "worker_init"):
            mod.worker_init()
        budget = time.time() + 60
        for i, v in enumerate(new):
            enough = len(confirmed) >= MAX_VIOLATION_LINES and not triage
            if enough or time.time() > budget or getattr(mod, "NO_RECONFIRM", False):
                untried = new[i:]
                break
            try:
                boot.clear_caches()
                again = mod.replay(v["desc"])
            except BaseException as e:
                again = [{"site": v["site"], "kind": v["kind"], "key": v["key"]}]
                print("replay raised %r" % (e,), file=sys.stderr)
            if any(a["site"] == v["site"] and a["kind"] == v["kind"] for a in again):
                confirmed.append(v)
            else:
                unconfirmed.append(v)
        # cases beyond the confirmation budget are reported as they were observed by the workers
        confirmed.extend(untried)

    if triage:
        groups = collections.defaultdict(list)
        for v in confirmed:
            groups[(v["site"], v["kind"])].append(v)
        out = []
        for (site, kind), vs in sorted(groups.items()):
            out.append({
                "property": prop, "site": site, "kind": kind, "count": len(vs),
                "keys": sorted(v["key"] for v in vs),
                "whats": [v["what"] for v in vs[:5]],
                "items": [[v["key"], v["what"]] for v in vs],
                "first_desc": vs[0]["desc"],
            })
        with open(triage, "w") as f:
            json.dump(out, f, indent=1, default=str)
        print("triage: %d groups, %d violations -> %s" % (len(out), len(confirmed), triage))

    os.makedirs(os.path.join(REPLAY_DIR, prop), exist_ok=True)
    for e in known:
        if matched.get(e["id"]):
            print("KNOWN-FINDING: property=%s %s [%s; %d case(s) this run]" % (
                prop, e["what"], e["id"], len(matched[e["id"]])))
    printed = 0
    for v in confirmed:
        if printed >= MAX_VIOLATION_LINES:
            break
        path = os.path.join(REPLAY_DIR, prop, v["key"] + "_" + key_of([v["site"], v["kind"]])[:6] + ".json")
        with open(path, "w") as f:
            json.dump({"property": prop, **v}, f, indent=1, default=str)
        print("VIOLATION property=%s replay=%s site=%s kind=%s what=%s" % (
            prop, path, v["site"], v["kind"], v["what"][:160].replace("\n", "\\n")))
        printed += 1
    if len(confirmed) > printed:
        print("... %d further violations not listed (see evidence)" % (len(confirmed) - printed))
    for v in unconfirmed[:5]:
        print("UNCONFIRMED (did not reproduce from a clean state, not counted) site=%s kind=%s %s" % (
            v["site"], v["kind"], v["what"][:120]), file=sys.stderr)

    # evidence
    wall = time.time() - t0
    coverage = {
        "evaluations": agg["n"],
        "distinct_nontrivial": len(agg["nontrivial"]),
        "rule": mod.RULE if isinstance(mod.RULE, str) else mod.RULE[tier],
        "samples": agg["samples"][:6] or ["<none>"],
        "exhaustive": True,
        "units": len(units),
        "stats": dict(sorted(agg["stats"].items())),
        "violations_new": len(confirmed),
        "violations_unconfirmed": len(unconfirmed),
        "violations_not_reconfirmed_for_time": len(untried),
        "known_findings_matched": {k: len(v) for k, v in matched.items()},
        "violation_groups": collections.Counter("%s/%s" % (v["site"], v["kind"]) for v in confirmed).most_common(40),
    }
    if hasattr(mod, "finish"):
        coverage.update(mod.finish(tier, agg) or {})
    ev = {
        "property_id": prop,
        "tier": tier,
        "seed": seed,
        "level": mod.LEVEL,
        "coverage": coverage,
        "assumptions": list(getattr(mod, "ASSUMPTIONS", [])),
        "wall_s": round(wall, 2),
        "violations": len(confirmed),
    }
    os.makedirs(EVIDENCE_DIR, exist_ok=True)
    with open(os.path.join(EVIDENCE_DIR, prop + ".json"), "w") as f:
        json.dump(ev, f, indent=1, default=str)
    print("%s tier=%s units=%d evaluations=%d nontrivial=%d new_violations=%d known=%d wall=%.1fs" % (
        prop, tier, len(units), agg["n"], len(agg["nontrivial"]), len(confirmed),
        sum(len(v) for v in matched.values()), wall))
    return 1 if confirmed else 0


def run_replay(mod, path):
    from mc import boot

    boot.install()
    if hasattr(mod, "worker_init"):
        mod.worker_init()
    with open(path) as f:
        rec = json.load(f)
    boot.clear_caches()
    vs = mod.replay(rec["desc"])
    print(json.dumps(rec["desc"], indent=1, default=str)[:4000])
    if hasattr(mod, "explain"):
        print(mod.explain(rec["desc"]))
    hit = [v for v in vs if v["site"] == rec["site"] and v["kind"] == rec["kind"]]
    for v in vs:
        print("reproduced: site=%s kind=%s what=%s" % (v["site"], v["kind"], v["what"]))
    if hit:
        print("VIOLATION property=%s replay=%s" % (mod.ID, path))
        return 1
    print("not reproduced")
    return 0


def main(argv=None):
    ap = argparse.ArgumentParser()
    ap.add_argument("prop")
    ap.add_argument("--tier", default=os.environ.get("VERIF_TIER", "quick"), choices=["quick", "thorough"])
    ap.add_argument("--replay")
    ap.add_argument("--triage")
    ap.add_argument("--nproc", type=int, default=int(os.environ.get("MC_NPROC", "16")))
    ap.add_argument("--limit-units", type=int)
    args = ap.parse_args(argv)
    seed = int(os.environ.get("VERIF_SEED", "0") or 0)
    from mc import boot

    boot.install()
    mod = importlib.import_module("mc.props." + args.prop.lower())
    if args.replay:
        return run_replay(mod, args.replay)
    return run_check(mod, args.tier, seed, args.nproc, triage=args.triage, limit_units=args.limit_units)


if __name__ == "__main__":
    sys.exit(main())
