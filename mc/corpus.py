"""Construct corpus: small hand-written modules, one per syntactic construct of Python 3.12, plus the
vendored example inputs of the repository's own test scripts (corpus/repo_examples.json)."""
from __future__ import annotations

import functools
import json
import os
import textwrap

HERE = os.path.dirname(os.path.dirname(os.path.abspath(__file__)))

CONSTRUCTS = {}


def c(name, src):
    assert name not in CONSTRUCTS, name
    CONSTRUCTS[name] = textwrap.dedent(src).lstrip("\n")


c("assign", "x = 1\n")
c("aug_assign", "x = 1\nx += 2\n")
c("ann_assign", "x: int = 1\ny: int\n")
c("tuple_unpack", "a, (b, *c) = 1, (2, 3, 4)\n")
c("chained_assign", "a = b = c = []\n")
c("walrus", "if (n := len('abc')) > 2:\n    print(n)\n")
c("walrus_comp", "r = [y for x in range(3) if (y := x * 2) > 1]\n")
c("lambda_default", "f = lambda x, y=2, *a, k=3, **kw: (x, y, a, k, kw)\n")
c("def_all_args", "def f(a, b=1, /, c=2, *args, d, e=3, **kw):\n    return a\n")
c("def_annotations", "def f(a: int, b: 'str' = 'x') -> list[int]:\n    return [a]\n")
c("async_def", "import asyncio\nasync def f():\n    await asyncio.sleep(0)\n    return 1\nprint(asyncio.run(f()))\n")
c("async_for_with", """
    async def f(xs, cm):
        async for x in xs:
            print(x)
        async with cm as c:
            print(c)
        return [y async for y in xs]
    """)
c("decorators", """
    import functools
    @functools.lru_cache(maxsize=None)
    def f(x):
        return x
    @staticmethod
    def g():
        pass
    """)
c("decorated_class", """
    import dataclasses
    @dataclasses.dataclass(frozen=True)
    class P:
        x: int = 0
        y: int = 0
    """)
c("class_bases_kw", "class M(type):\n    pass\nclass A(object, metaclass=M):\n    x = 1\n")
c("class_nested", "class A:\n    class B:\n        def m(self):\n            return 1\n    def n(self):\n        return self.B().m()\n")
c("class_property", "class A:\n    @property\n    def x(self):\n        return 1\n    @x.setter\n    def x(self, v):\n        pass\n")
c("pep695_func", "def first[T](xs: list[T]) -> T:\n    return xs[0]\n")
c("pep695_class", "class Box[T]:\n    def __init__(self, v: T):\n        self.v = v\n")
c("pep695_alias", "type Pair[T] = tuple[T, T]\n")
c("match_basic", """
    def f(p):
        match p:
            case 0:
                return 'zero'
            case [x, y, *rest]:
                return x
            case {'k': v, **kw}:
                return v
            case str() | bytes():
                return 's'
            case Point(x=0) if p.y:
                return 'pt'
            case _:
                return None
    """)
c("match_capture_as", "match cmd.split():\n    case ['go', ('n' | 's') as d]:\n        print(d)\n    case _:\n        pass\n")
c("fstring_nested", "x = 3\ns = f\"{x!r:>{x}} {'a' if x else 'b'} {f'{x}'}\"\n")
c("fstring_312", "names = ['a']\ns = f\"{', '.join(names)} {names[0]!s}\"\n")
c("fstring_multiline", "x = 1\ns = f'''a {x}\n  b {x + 1}\n'''\n")
c("bytes_raw", "b = rb'\\d' + b'x'\nr = r'\\n'\n")
c("implicit_concat", "s = ('a'\n     'b'\n     f'c')\n")
c("triple_quoted", "s = '''a\n\n  b\t\n'''\nt = \"\"\"x\"\"\"\n")
c("docstrings", "'''module doc'''\ndef f():\n    \"\"\"func doc.\n\n    more\n    \"\"\"\nclass A:\n    'class doc'\n")
c("global_nonlocal", """
    n = 0
    def f():
        global n
        n += 1
        def g():
            nonlocal_v = 1
            def h():
                nonlocal nonlocal_v
                nonlocal_v += 1
            h()
            return nonlocal_v
        return g()
    """)
c("star_expr", "a = [*range(3), *'ab']\nb = {**{'x': 1}, 'y': 2}\nprint(*a, **b)\n")
c("try_except_else_finally", "try:\n    x = 1\nexcept (ValueError, KeyError) as e:\n    x = 2\nexcept Exception:\n    raise\nelse:\n    x = 3\nfinally:\n    print(x)\n")
c("try_star", "try:\n    pass\nexcept* ValueError as eg:\n    print(eg)\n")
c("raise_from", "try:\n    pass\nexcept Exception as e:\n    raise RuntimeError('x') from e\n")
c("with_multi", "with open('a') as f, open('b') as g:\n    pass\n")
c("with_paren", "with (\n    open('a') as f,\n    open('b') as g,\n):\n    pass\n")
c("for_else", "for i in range(3):\n    if i == 5:\n        break\nelse:\n    print('no break')\n")
c("while_else", "i = 0\nwhile i < 3:\n    i += 1\nelse:\n    print(i)\n")
c("semicolons", "a = 1; b = 2; print(a, b)\n")
c("semicolon_block", "if True: a = 1; b = 2\n")
c("oneline_compound", "if True: pass\nfor i in (): pass\nwhile False: pass\n")
c("line_continuation", "x = 1 + \\\n    2 + \\\n    3\n")
c("paren_continuation", "x = (1 +\n     2 +\n     3)\n")
c("comments", "# leading\nx = 1  # trailing\n# between\n\n# before def\ndef f():  # on def\n    # inside\n    return x  # ret\n# end\n")
c("shebang_encoding", "#!/usr/bin/env python3\n# -*- coding: utf-8 -*-\nx = 1\n")
c("future_import", "from __future__ import annotations\nimport os\nx: os.PathLike\n")
c("dunder_all", "__all__ = ['f']\ndef f():\n    pass\ndef _g():\n    pass\n")
c("main_guard", "def main():\n    return 0\nif __name__ == '__main__':\n    raise SystemExit(main())\n")
c("relative_import", "from . import sibling\nfrom .. import parent\nfrom .mod import name as alias\n")
c("import_forms", "import os, sys\nimport os.path as osp\nfrom os import (path,\n    sep)\nfrom typing import *\n")
c("conditional_import", "try:\n    import tomllib\nexcept ImportError:\n    tomllib = None\n")
c("type_checking_import", "from typing import TYPE_CHECKING\nif TYPE_CHECKING:\n    from collections.abc import Sequence\ndef f(x: 'Sequence[int]'):\n    return x\n")
c("comprehensions", "a = [x for x in range(3)]\nb = {x: y for x, y in zip('ab', 'cd')}\nc = {x for x in 'abc' if x}\nd = (x for x in a for y in a if x if y)\n")
c("nested_comp_scope", "x = 5\nr = [[x for x in range(y)] for y in range(x)]\n")
c("genexp_arg", "print(sum(x for x in range(3)))\nprint(max((x for x in range(3)), default=0))\n")
c("ternary_chain", "x = 1 if a else 2 if b else 3\n")
c("boolops", "x = a and b or not c and (d or e)\n")
c("compare_chain", "x = 0 < a <= b != c is not None in d\n")
c("numbers", "a = 0x1F + 0o7 + 0b1 + 1_000 + 1e3 + 1j + .5\n")
c("unary_ops", "a = -+~1\nb = not not a\n")
c("power_matmul", "a = 2 ** -1\nb = m @ n\nb @= n\n")
c("slices", "a = x[1:2, ::3, ...]\nb = x[:]\nc = x[i][j:k]\n")
c("del_stmt", "x = [1, 2]\ndel x[0], x\n")
c("assert_stmt", "assert x, 'msg'\nassert (x, 'always true')\n")
c("pass_ellipsis", "def f(): ...\nclass A: ...\n")
c("yield_forms", "def g():\n    x = yield\n    yield x\n    yield from range(3)\n    return 5\n")
c("lambda_nested", "f = lambda: (lambda x: x)(1)\n")
c("string_escapes", "s = 'a\\tb\\n\\x41\\u00e9\\N{DASH}'\nt = \"it's\"\nu = 'say \"hi\"'\n")
c("non_ascii", "naïve = 'é→😀'\nprint(naïve)  # ünïcödé comment\n")
c("non_ascii_same_line", "s = 'é'; print(f(s), 'ü')\n")
c("empty_def_bodies", "def f():\n    pass\nclass A:\n    pass\nif x:\n    pass\nelse:\n    pass\n")
c("deep_nesting", "def f():\n    for i in x:\n        while i:\n            if i:\n                try:\n                    with i:\n                        return i\n                finally:\n                    pass\n")
c("if_elif_chain", "if a:\n    x = 1\nelif b:\n    x = 2\nelif c:\n    x = 3\nelse:\n    x = 4\n")
c("return_module_level_only_parses", "return 1\n")
c("print_chevron_like", "print('a', file=sys.stderr, end='')\n")
c("dict_set_literals", "a = {}\nb = {1}\nc = {1: 2, **a}\nd = {*b}\ne = set()\n")
c("tuple_forms", "a = ()\nb = (1,)\nc = 1,\nd = (1, 2)\nfor x in 1, 2:\n    pass\n")
c("star_assign_call", "first, *rest = f(*a, *b, k=1, **c)\n")
c("subscript_assign", "x[0] = 1\nx.y.z = 2\nx[0].y[1:2] = 3\n")
c("long_call", "result = some_function(argument_number_one, argument_number_two, argument_number_three, argument_number_four, five)\n")
c("long_condition", "if aaaaaaaaaaaaaaaaaaaaaaaaa and bbbbbbbbbbbbbbbbbbbbbbbbbbbbbbb and ccccccccccccccccccccccccccccccc and ddddddddddddddddddddd:\n    pass\n")
c("blank_line_runs", "a = 1\n\n\n\n\n\nb = 2\n\n\n\n\ndef f():\n\n\n\n    return 1\n")
c("trailing_whitespace", "a = 1   \nb = 2\t\n   \nc = 3\n")
c("tabs_indent", "def f():\n\treturn 1\n")
c("form_feed", "a = 1\n\x0c\nb = 2\n")
c("crlf", "a = 1\r\nb = 2\r\n")
c("no_trailing_newline", "a = 1\nb = 2")
c("only_comment", "# nothing here\n")
c("only_docstring", "'''doc'''\n")
c("only_pass", "pass\n")
c("only_import", "import os\n")
c("empty", "")
c("only_newlines", "\n\n\n")
c("ignore_comment", "x = list()  # pyrefact: ignore\ny = list()\n")
c("nested_functions_closure", "def outer(a):\n    def inner(b):\n        return a + b\n    return inner\nprint(outer(1)(2))\n")
c("class_attrs_methods", "class A:\n    counter = 0\n    def __init__(self, v):\n        self.v = v\n        A.counter += 1\n    def get(self):\n        return self.v\n    @classmethod\n    def make(cls):\n        return cls(0)\n    @staticmethod\n    def util(x):\n        return x\n")
c("exception_group", "raise ExceptionGroup('g', [ValueError(1)])\n")
c("print_in_if_main", "import sys\nif len(sys.argv) > 5:\n    print('many')\n")
c("while_true_loop", "while True:\n    line = input()\n    if not line:\n        break\n")
c("nested_fstring_quotes", "d = {'k': 1}\ns = f\"{d['k']}\"\n")
c("starred_index", "a = x[*idx]\n")
c("dict_comp_nested", "r = {k: [v for v in vs if v] for k, vs in d.items() if k}\n")
c("chained_methods", "r = (df.a()\n      .b(1)\n      .c())\n")
c("return_tuple_star", "def f(a):\n    return 1, *a\n")
c("lambda_in_default", "def f(key=lambda x: x):\n    return key\n")
c("conditional_def", "if cond:\n    def f():\n        return 1\nelse:\n    def f():\n        return 2\n")
c("loop_else_break_nested", "for i in a:\n    for j in b:\n        if j:\n            break\n    else:\n        continue\n    break\n")
c("with_no_as", "with lock:\n    x = 1\n")
c("try_in_loop_continue", "for i in x:\n    try:\n        f(i)\n    except ValueError:\n        continue\n    finally:\n        g(i)\n")


c("import_in_def_then_dedented_string", 'def load(path):\n    import json\n    template = """\nkey: value\n"""\n    return json.dumps(template), path\nprint(load(1))\n')
c("import_in_if_then_dedented_call", "if cond:\n    import os\n    value = call(\n  1,\n 2,\n)\n    print(value, os)\n")
c("dedented_string_in_def", 'def f():\n    x = """\nzero col\n  two col\n"""\n    y = 1\n    return x, y\n')
c("dedented_string_in_class_method", 'class A:\n    def m(self):\n        import re\n        pat = r"""\n^a\n"""\n        return re.compile(pat)\n')
c("imports_in_nested_blocks", "def f(c):\n    if c:\n        import os\n        import sys\n        return os, sys\n    else:\n        from json import dumps\n        x = (dumps,\n1)\n        return x\n")
c("try_import_then_multiline", "try:\n    import tomllib\n    cfg = {\n'a': 1,\n    }\nexcept ImportError:\n    cfg = None\n")
c("async_for_hoistable", "async def collect(stream):\n    items = []\n    async for item in stream:\n        k = 10\n        items.append(item + k)\n    return items\n")
c("async_with_open", "async def f(p):\n    fh = open(p)\n    data = fh.read()\n    fh.close()\n    async with lock:\n        return data\n")
c("async_comprehension", "async def f(xs):\n    r = []\n    async for x in xs:\n        r.append(x * 2)\n    return [y async for y in xs if y], r\n")


c("odd_spellings_else", "def f(c):\n    if c:\n        return 1\n    else :\n        return 2\nprint(f(1))\n")
c("odd_spellings_keywords", "if(a):\n    x = 1\nelif(b) :\n    x = 2\nelse:# comment\n    x = 3\nwhile(x):x -= 1\nfor(i)in(range(2)):pass\n")
c("odd_spellings_backslash", "def f(c):\n    if c:\n        return 1\n    else: \\\n        return 2\n")
c("odd_spellings_def", "def  f ( a , b = 1 ) :\n    return ( a , b )\nclass  A ( object ) :\n    x = 1 ;\n")


# module headers of every shape followed by code that needs a guessed import (family added after the seeded change
# C03-import-inserted-at-header-start: the insertion line was the START of a multi-line header statement)
_HEADERS = {
    "none": "",
    "doc1": '"""doc"""\n',
    "doc_multiline": '"""doc\n\nmore text\n"""\n',
    "doc_paren_adjacent": '("doc "\n "string")\n',
    "doc_then_future": '"""doc"""\nfrom __future__ import annotations\n',
    "future_paren": "from __future__ import (\n    annotations,\n    division,\n)\n",
    "future_backslash": "from __future__ import annotations, \\\n    division\n",
    "future_then_comment": "from __future__ import annotations  # c\n# another comment\n",
    "doc_semicolon_multiline": '"""doc"""; first_value = (\n    1,\n)\n',
    "future_semicolon": "from __future__ import annotations; first_value = [\n    1,\n]\n",
    "shebang_coding": "#!/usr/bin/env python\n# -*- coding: utf-8 -*-\n",
    "doc_multiline_paren_future": '"""doc\nmore\n"""\nfrom __future__ import (\n    annotations\n)\n',
    "import_paren": "from os.path import (\n    join,\n    sep,\n)\n",
    "doc_formfeed": '"""a\x0cb\nc"""\n',
}
_NEEDS = {
    "os": "print(os.getcwd())\n",
    "two": "print(functools.partial(os.path.join, 'a')('b'))\n",
    "in_def": "def where():\n    return os.sep, math.pi\nprint(where())\n",
}
for _h, _ht in _HEADERS.items():
    for _n, _nt in _NEEDS.items():
        c("future_import_header_%s_%s" % (_h, _n), _ht + _nt)


# a statement that some rule removes as the ONLY statement of every kind of block (family added after the seeded change
# C03-remove-nodes-pass-only-for-statements: an emptied except / case body got no 'pass')
_SOLE_BLOCKS = {
    "if": "if cond:\n    {S}\n", "else": "if cond:\n    other = 1\nelse:\n    {S}\n", "elif": "if cond:\n    other = 1\nelif cond2:\n    {S}\n",
    "for": "for item in seq:\n    {S}\n", "while": "while cond:\n    {S}\n", "with": "with ctx:\n    {S}\n", "def": "def fn(json=None):\n    {S}\n",
    "try": "try:\n    {S}\nexcept ValueError:\n    other = 1\n", "except": "try:\n    other = 1\nexcept ValueError:\n    {S}\n",
    "except_star": "try:\n    other = 1\nexcept* ValueError:\n    {S}\n", "finally": "try:\n    other = 1\nfinally:\n    {S}\n",
    "try_else": "try:\n    other = 1\nexcept ValueError:\n    other = 2\nelse:\n    {S}\n", "for_else": "for item in seq:\n    other = 1\nelse:\n    {S}\n",
    "case": "match value:\n    case 1:\n        {S}\n    case _:\n        other = 2\n", "class": "class Holder:\n    {S}\n",
    "nested_except": "def fn(json=None):\n    try:\n        other = 1\n    except ValueError:\n        {S}\n    return json\n",
}
for _b, _bt in _SOLE_BLOCKS.items():
    c("sole_statement_duplicate_import_in_%s" % _b, "import json\nprint(json)\n" + _bt.replace("{S}", "import json"))
    c("sole_statement_pointless_in_%s" % _b, "import json\nprint(json)\n" + _bt.replace("{S}", "1 + 1"))


@functools.lru_cache(maxsize=None)
def repo_examples():
    with open(os.path.join(HERE, "corpus", "repo_examples.json")) as f:
        return json.load(f)


@functools.lru_cache(maxsize=None)
def stdlib_files():
    """18 small modules of CPython 3.12's standard library, vendored under corpus/stdlib (thorough tiers only)."""
    d = os.path.join(HERE, "corpus", "stdlib")
    out = {}
    for f in sorted(os.listdir(d)):
        if f.endswith(".py"):
            with open(os.path.join(d, f), encoding="utf-8") as fh:
                out[f] = fh.read()
    return out


def construct_variants(name):
    """(variant label, text): alone, first of two, last of two, indented 4 and 8."""
    src = CONSTRUCTS[name]
    filler = "zz_filler = ident_fn(1)\n"
    out = [("alone", src)]
    if src.strip() and not name.startswith(("future_import", "shebang", "empty", "only_newlines", "no_trailing")):
        body = src if src.endswith("\n") else src + "\n"
        out.append(("first", body + filler))
        out.append(("last", filler + src))
        out.append(("indent4", textwrap.indent(src, "    ")))
        out.append(("indent8", textwrap.indent(src, "        ")))
    return out
