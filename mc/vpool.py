"""Virtual pool: an explorer-controlled stand-in for multiprocessing.Pool used by main.format_files.

Each virtual worker is a thread, but threads run strictly one at a time and hand the baton back to the scheduler
at every scheduling point: the start of a task and every open() of a .py file below the tree root (the file
system is the only way workers of the real pool can interact). Every virtual worker owns a private set of all
pyrefact caches (swapped in at each hand-over), like the separate processes of the real pool. A schedule is a
list of integer choices; an out-of-range choice while replaying is a hard error.
"""
from __future__ import annotations

import builtins
import io
import os
import threading

from mc import boot


class ReplayDivergence(RuntimeError):
    pass


class Point:
    __slots__ = ("enabled", "running_enabled", "chosen", "what")

    def __init__(self, enabled, running_enabled, chosen, what):
        self.enabled = enabled
        self.running_enabled = running_enabled
        self.chosen = chosen
        self.what = what


class Execution:
    def __init__(self, root, choices, n_workers, assignment):
        self.root = os.path.abspath(root)
        self.choices = list(choices)
        self.n_workers = n_workers
        self.assignment = assignment
        self.points = []
        self.trace = []
        self.cv = threading.Condition()
        self.current = None  # worker id holding the baton
        self.waiting = {}  # wid -> description of the point it waits at
        self.finished = set()
        self.active = set()
        self.last_running = None
        self.caches = {w: {wr: {} for _, _, wr in boot.REG} for w in range(n_workers)}
        self.local = threading.local()
        self.step = 0
        self.errors = []

    # ---- called from worker threads
    def point(self, what):
        wid = getattr(self.local, "wid", None)
        if wid is None:
            return
        with self.cv:
            self._save_caches(wid)
            self.waiting[wid] = what
            self.current = None
            self.cv.notify_all()
            while self.current != wid:
                self.cv.wait()
            del self.waiting[wid]
            self._load_caches(wid)

    def _save_caches(self, wid):
        for _, _, wr in boot.REG:
            self.caches[wid][wr] = wr.cache

    def _load_caches(self, wid):
        for _, _, wr in boot.REG:
            wr.cache = self.caches[wid][wr]

    # ---- pool surface
    def starmap(self, fn, iterable):
        tasks = list(iterable)
        results = [None] * len(tasks)
        per_worker = {}
        for i, args in enumerate(tasks):
            wid = self.assignment[i % len(self.assignment)] % self.n_workers
            per_worker.setdefault(wid, []).append(i)
        threads = []
        with self.cv:
            self.active = set(per_worker)
            self.finished = set()
        for wid, idxs in per_worker.items():
            def body(wid=wid, idxs=idxs):
                self.local.wid = wid
                try:
                    for i in idxs:
                        self.point(("start", os.path.basename(str(tasks[i][0]))))
                        try:
                            results[i] = fn(*tasks[i])
                        except BaseException as e:  # noqa: BLE001
                            results[i] = e
                            self.errors.append(e)
                finally:
                    with self.cv:
                        self._save_caches(wid)
                        self.finished.add(wid)
                        if self.current == wid:
                            self.current = None
                        self.cv.notify_all()

            t = threading.Thread(target=body, daemon=True)
            threads.append(t)
            t.start()
        self._schedule_until_done()
        for t in threads:
            t.join(timeout=30)
        for r in results:
            if isinstance(r, BaseException):
                raise r
        return results

    def _schedule_until_done(self):
        while True:
            with self.cv:
                while self.current is not None or (len(self.waiting) + len(self.finished) < len(self.active)):
                    self.cv.wait(timeout=60)
                if len(self.finished) == len(self.active):
                    return
                enabled = sorted(self.waiting)
                running_enabled = self.last_running in enabled
                if running_enabled:  # canonical order: the running worker first, then ascending ids
                    enabled.remove(self.last_running)
                    enabled.insert(0, self.last_running)
                c = self.choices[self.step] if self.step < len(self.choices) else 0
                if c >= len(enabled):
                    raise ReplayDivergence("choice %d at point %d, only %d enabled" % (c, self.step, len(enabled)))
                chosen = enabled[c]
                self.points.append(Point(len(enabled), running_enabled, c, self.waiting[chosen]))
                self.trace.append((chosen,) + tuple(self.waiting[chosen]))
                self.step += 1
                self.last_running = chosen
                self.current = chosen
                self.cv.notify_all()

    def __enter__(self):
        return self

    def __exit__(self, *a):
        return False


class _NoLock:
    def __enter__(self):
        return self

    def __exit__(self, *a):
        return False

    def acquire(self, *a, **k):
        return True

    def release(self):
        return None


def run_format_files(root, filenames, choices, n_workers, assignment, **kwargs):
    """One execution of the real main.format_files over the virtual pool. -> (result, Execution)"""
    from pyrefact import tracing

    main = boot.main_module()
    ex = Execution(root, choices, n_workers, assignment)
    real_open, real_io_open = builtins.open, io.open
    real_pool = main.mp.Pool
    real_lock = getattr(tracing, "SYS_PATH_LOCK", None)
    saved = {wr: wr.cache for _, _, wr in boot.REG}

    def patched_open(file, mode="r", *a, **k):
        p = os.path.abspath(str(file)) if isinstance(file, (str, os.PathLike)) else ""
        if p.startswith(ex.root) and p.endswith(".py"):
            ex.point(("open", os.path.relpath(p, ex.root), mode[0]))
        return real_open(file, mode, *a, **k)

    main.mp.Pool = lambda *a, **k: ex
    builtins.open = patched_open
    io.open = patched_open
    if real_lock is not None:
        tracing.SYS_PATH_LOCK = _NoLock()
    try:
        result = main.format_files(filenames, n_cores=n_workers, **kwargs)
    finally:
        main.mp.Pool = real_pool
        builtins.open = real_open
        io.open = real_io_open
        if real_lock is not None:
            tracing.SYS_PATH_LOCK = real_lock
        for wr, c in saved.items():
            wr.cache = c
    return result, ex


def explore(run, bound, max_executions=100000):
    """Deviation-bounded exhaustive exploration. run(prefix) -> Execution (with .points).

    Yields (prefix, execution) for every schedule whose number of preemptions is <= bound."""
    stack = [([], 0)]
    n = 0
    while stack:
        prefix, _ = stack.pop()
        ex = run(prefix)
        n += 1
        yield prefix, ex
        if n >= max_executions:
            raise RuntimeError("execution cap hit")
        cost = 0
        costs = []
        for i, p in enumerate(ex.points):
            costs.append(cost)
            if p.chosen != 0 and p.running_enabled:
                cost += 1
        for i in range(len(prefix), len(ex.points)):
            p = ex.points[i]
            for alt in range(1, p.enabled):
                c = costs[i] + (1 if p.running_enabled else 0)
                if c > bound:
                    continue
                stack.append(([q.chosen for q in ex.points[:i]] + [alt], c))
