"""Self-test of the E-prog alphabet: every atom runs in every context; every rule fires somewhere."""
import collections, sys, time
from mc import boot
boot.install()
from mc import progs
progs.worker_setup()
bad = []
for n in progs.ATOMS:
    for ctx in progs.contexts_of(n):
        o = progs.run_prog(progs.build([n], ctx))
        if o[0] != "ok":
            bad.append((n, ctx, o[0], o[1][-60:]))
print("atoms", len(progs.ATOMS), "core", len(progs.CORE), "bad (atom,ctx):", len(bad))
for b in bad: print("  BAD", b)
fired = collections.defaultdict(list)
t0 = time.time()
for n in progs.ATOMS:
    src = progs.build([n], "module")
    o = progs.run_prog(src)
    if o[0] != "ok": continue
    for q in progs.rules():
        boot.clear_caches()
        try:
            out = progs.call_rule(q, src)
        except BaseException as e:
            fired[q].append((n, "crash:" + type(e).__name__)); continue
        if out != src:
            c = progs.compare(o, out)
            fired[q].append((n, "ok" if c is None else c[0]))
print("rules", len(progs.rules()), "fired", len(fired), "time %.1f" % (time.time() - t0))
print("never fired:", [q for q in progs.rules() if q not in fired])
print("no passing firing:", [q for q, v in fired.items() if not any(r == "ok" for _, r in v)])
for q, v in sorted(fired.items()):
    badv = [(n, r) for n, r in v if r != "ok"]
    if badv: print("  ", q, badv)
