"""E-prog: the closed-program space, the execution oracle, the rule registry and the rule tracer."""
from __future__ import annotations

import contextlib
import functools
import importlib
import inspect
import io
import logging
import os
import sys
import time

from mc import boot
from mc.kernel import CaseTimeout, time_limit

PYDEPS = os.path.join(os.path.dirname(os.path.dirname(os.path.abspath(__file__))), "build", "pydeps")

PRELUDE = '''import collections, itertools, heapq, math, functools, logging, sys
LOG = []
def note(x):
    LOG.append(x)
    return x
def ident(x):
    return x
xs = [3, 1, 2]
ys = [4, 5, 6]
d = {1: 10, 2: 20}
s = {1, 2}
t = "a b"
p = ident(True)
q = ident(False)
v = ident(2)
FIXTURE = 'fixture.txt'
'''

ATOMS = {}  # name -> dict(code, obs, tags)


def atom(name, code, obs="", tags=()):
    assert name not in ATOMS, name
    ATOMS[name] = {"code": code, "obs": obs, "tags": tuple(tags)}


# ---- (A) constant control flow / unreachable tails
atom("commented_code", "a = 1\n# b = 2\n# print(b)\n", "a")
for c in ("0", "1", "True", "False", "''", "()", "not 1"):
    atom("dead_if_const[%s]" % c, "if %s:\n    a = note(1)\nelse:\n    a = note(2)\n" % c, "a", ["core"] if c == "0" else [])
atom("dead_if_noelse", "a = 0\nif 0:\n    a = note(1)\nif 1:\n    a = a + note(2)\n", "a")
atom("dead_elif", "if q:\n    a = note(1)\nelif True:\n    a = note(2)\nelse:\n    a = note(3)\n", "a")
atom("dead_ifexp", "a = note(1) if True else note(2)\nb = note(3) if 0 else note(4)\n", "a, b")
atom("dead_while", "a = 1\nwhile False:\n    a = note(3)\n", "a")
atom("dead_comp_if", "r = [i for i in xs if True]\nr2 = [i for i in xs if 0]\n", "r, r2")
atom("unreachable_after_return", "def g():\n    note(1)\n    return 1\n    note(2)\na = g()\n", "a", ["core"])
atom("unreachable_after_raise", "def g():\n    try:\n        note(1)\n        raise ValueError(1)\n        note(2)\n    except ValueError:\n        note(3)\n    return 4\na = g()\n", "a")
atom("unreachable_after_continue", "for i in xs:\n    note(i)\n    continue\n    note(-i)\n")
atom("unreachable_after_break", "for i in xs:\n    note(i)\n    break\n    note(-i)\nelse:\n    note('else')\n")
atom("unreachable_if_both_return", "def g(c):\n    if c:\n        return note(1)\n    else:\n        return note(2)\n    note(3)\na = (g(p), g(q))\n", "a")
atom("while_true_break", "i = 0\nwhile True:\n    i += 1\n    if i > 2:\n        break\nnote(i)\n", "i")
# loops with a constant true test whose only way out sits in an except handler, a match case, a try-else / finally, a
# with block or an inner loop's else (family added after the seeded change C01-breaks-out-of-skips-handlers)
for _nm, _body in (
    ("except", "    try:\n        i += 1\n        if i > 2:\n            raise ValueError(i)\n    except ValueError:\n        break\n"),
    ("except_nested_if", "    try:\n        i += 1\n        int('x')\n    except ValueError:\n        if i > 2:\n            break\n"),
    ("match_case", "    i += 1\n    match i:\n        case 3:\n            break\n        case _:\n            note(i)\n"),
    ("try_else", "    try:\n        i += 1\n    except ValueError:\n        note('never')\n    else:\n        if i > 2:\n            break\n"),
    ("finally", "    try:\n        i += 1\n    finally:\n        if i > 2:\n            break\n"),
    ("with", "    i += 1\n    with open(FIXTURE) as fh:\n        if i > 2:\n            break\n"),
    ("inner_for_else", "    i += 1\n    for w in xs:\n        if w > 5:\n            break\n    else:\n        if i > 2:\n            break\n"),
    ("except_star", "    try:\n        i += 1\n        if i > 2:\n            raise ExceptionGroup('g', [ValueError(i)])\n    except* ValueError:\n        i = 10\n    if i >= 10:\n        break\n"),
):
    for _test in ("True", "1"):
        atom("while_const_exit_in[%s,%s]" % (_nm, _test), "i = 0\ntotal = 0\nwhile %s:\n" % _test + _body + "    total += i\nnote(total)\na = (i, total)\n", "a", ["alone"])
atom("while_p_return", "def g(c):\n    while c:\n        return note(1)\n    return note(2)\na = (g(p), g(q))\n", "a")
atom("raise_missing_from", "try:\n    try:\n        note(int(t))\n    except ValueError:\n        raise KeyError('k')\nexcept KeyError:\n    note('caught')\n")
atom("raise_missing_from_named", "try:\n    try:\n        note(int(t))\n    except ValueError as err:\n        raise KeyError('k')\nexcept KeyError as e2:\n    note(type(e2.__cause__).__name__)\n")
# ---- (B) pointless statements, unused variables / definitions
atom("unused_variable_fn", "def g():\n    u = note(1)\n    w = 5\n    return 2\na = g()\n", "a", ["core"])
atom("unused_variable_tuple", "def g():\n    u, w = note(1), 5\n    return u\na = g()\n", "a")
atom("unused_variable_aug", "def g():\n    u = 1\n    u += note(1)\n    return 2\na = g()\n", "a")
atom("unused_loop_var", "def g():\n    n = 0\n    for i in xs:\n        n += 1\n    return n\na = g()\n", "a")
atom("pointless_statements", "1 + 2\nxs\n'str'\n[ident(i) for i in xs]\nv < 3\n", "", ["core"])
atom("pointless_keep_effects", "[note(i) for i in xs]\nnote(1) if p else note(2)\nf'{note(3)}'\n")
atom("pointless_keep_call", "note(1)\nxs.sort()\nident(note(2))\n", "xs")
atom("pointless_in_try", "try:\n    int('x')\n    note(1)\nexcept ValueError:\n    note(2)\n")
atom("pointless_subscript", "try:\n    d[99]\n    note(1)\nexcept KeyError:\n    note(2)\n")
atom("pointless_attr", "try:\n    xs.nope\n    note(1)\nexcept AttributeError:\n    note(2)\n")
atom("underscore_assign", "_ = note(1)\n_ = 5\n")
atom("move_before_loop", "r = []\nfor i in range(3):\n    k = 10\n    r.append(i + k)\n", "r", ["core"])
atom("move_before_loop_effect", "r = []\nfor i in range(3):\n    k = note(10)\n    r.append(i + k)\n", "r")
atom("move_before_loop_zero_iter", "k = 1\nfor i in range(0):\n    k = 10\n", "k")
atom("move_before_loop_while", "i = 0\nwhile i < 2:\n    k = 7\n    i += k\n", "i")
atom("move_before_loop_dep", "r = []\nfor i in range(3):\n    k = i\n    k = 10\n    r.append(k)\n", "r")
atom("unused_function", "def unused_fn():\n    return note(1)\nclass UnusedCls:\n    pass\n", "", ["core"])
atom("unused_function_used_by_unused", "def helper_fn():\n    return note(1)\ndef unused_fn2():\n    return helper_fn()\n")
atom("used_function_via_name", "def used_fn():\n    return note(1)\nf0 = used_fn\na = f0()\n", "a")
atom("decorated_function", "reg = []\ndef register(fn):\n    reg.append(fn.__doc__)\n    return fn\n@register\ndef handler():\n    'doc'\n    return 1\n", "reg")
# ---- (H) classes
atom("unconventional_class", "class K:\n    x = 1\nK.y = 2\na = K.y + K.x\n", "a")
atom("unused_self", "class K2:\n    def m(self, w):\n        return w + 1\na = K2().m(1)\n", "a", ["core"])
atom("unused_cls", "class K4:\n    @classmethod\n    def m(cls, w):\n        return w + 1\na = (K4.m(1), K4().m(2))\n", "a")
atom("used_self", "class K5:\n    def __init__(self):\n        self.w = note(1)\n    def m(self):\n        return self.w + 1\na = K5().m()\n", "a")
atom("unused_self_cls", "class K3:\n    @staticmethod\n    def sm(w):\n        return w * 2\n    def m(self):\n        return self.sm(2)\na = K3().m()\n", "a")
atom("staticmethod_plain", "class K6:\n    @staticmethod\n    def sm(w):\n        return w * 2\na = K6.sm(3)\n", "a")
atom("staticmethod_unused_elsewhere", "class K7:\n    @staticmethod\n    def helper(w):\n        return w * 2\n    def m(self, w):\n        return K7.helper(w) + len(self.__class__.__name__)\na = K7().m(3)\n", "a")
atom("class_inherit_override", "class B0:\n    def m(self, w):\n        return w\nclass B1(B0):\n    def m(self, w):\n        return w + 1\na = [o.m(1) for o in (B0(), B1())]\n", "a")
atom("class_magic", "class K8:\n    def __len__(self):\n        return 3\n    def __repr__(self):\n        return 'K8!'\na = (len(K8()), repr(K8()))\n", "a")
# ---- singleton / imports in functions
atom("singleton_eq", "n = None\nb = n == None\nb2 = n != None\nb3 = v == True\n", "b, b2, b3")
atom("import_in_function", "def g():\n    import math\n    return math.floor(2.5)\na = g()\n", "a", ["core"])
atom("import_in_if", "if p:\n    import json\n    a = json.dumps([1])\nelse:\n    a = None\n", "a")
atom("import_in_try", "try:\n    import nonexistent_mod_vq\n    a = 1\nexcept ImportError:\n    a = 2\n", "a")
# ---- (C) if/else restructuring
atom("common_tail_if", "if p:\n    a = 1\n    note(9)\nelse:\n    a = 2\n    note(9)\nnote(0)\n", "a", ["core"])
atom("common_head_if", "if q:\n    note(9)\n    a = 1\nelse:\n    note(9)\n    a = 2\nnote(0)\n", "a")
atom("common_head_dep", "if note(q):\n    note(9)\n    a = 1\nelse:\n    note(9)\n    a = 2\n", "a")
atom("common_all_if", "if p:\n    note(9)\nelse:\n    note(9)\n")
atom("swap_if_else_pass", "if p:\n    pass\nelse:\n    note(1)\n", "", ["core"])
atom("swap_if_else_short", "def g(c):\n    if not c:\n        note(1)\n        note(2)\n        note(3)\n        note(4)\n    else:\n        note(5)\n    return 0\na = (g(p), g(q))\n", "a")
atom("swap_if_compare", "def g(c):\n    if c < 2:\n        pass\n    else:\n        note(c)\ng(1); g(2); g(3)\n")
atom("swap_if_and", "def g(c, e):\n    if c and e:\n        pass\n    else:\n        note((c, e))\nfor c in (0, 1):\n    for e in (0, 1):\n        g(c, e)\n")
atom("early_return", "def g(c):\n    if c:\n        w = 1\n    else:\n        w = 2\n    return w\na = (g(True), g(False))\n", "a", ["core"])
atom("early_return_long", "def g(c):\n    if c:\n        w = note(1)\n        w += 1\n        w += 2\n    else:\n        w = 2\n    return w\na = (g(True), g(False))\n", "a")
atom("early_continue", "for i in xs:\n    if i > 1:\n        note(i)\n        note(i + 1)\n        note(i + 2)\n        note(i + 3)\n        note(i + 4)\n        note(i + 5)\n", "", ["core"])
atom("early_continue_else", "for i in xs:\n    if i > 1:\n        note(i)\n        note(i + 1)\n        note(i + 2)\n        note(i + 3)\n    else:\n        note(-i)\n")
atom("early_continue_else_long", "for i in xs:\n    if i > 1:\n        note(i)\n        note(i + 1)\n        note(i + 2)\n        note(i + 3)\n        note(i + 4)\n        note(i + 5)\n    else:\n        note(-i)\n")
atom("early_continue_else_two", "n = 0\nfor i in xs:\n    if i != 1:\n        note(i)\n        note(i + 1)\n        note(i + 2)\n        note(i + 3)\n        note(i + 4)\n        note(i + 5)\n        note(i + 6)\n    else:\n        n += 1\n        note('one')\n", "n")
atom("early_return_else_short", "def g(c):\n    if c:\n        w = note(1)\n        w += 1\n        w += 2\n        w += 3\n        w += 4\n        return w\n    else:\n        note('e')\n    return 0\na = (g(True), g(False))\n", "a")
atom("bool_order_polluter", "b1 = v < 9 or v > 1 or t.islower()\nb2 = t.islower() or xs.count(1) > 0 or v > 1\n", "b1, b2")
atom("bool_order_victim", "b0 = (t.islower() and v > 1) or (t.islower() and v < 9)\nb3 = v > 1 and xs.count(1) > 0 and v > 1\n", "b0, b3")
atom("redundant_else_return", "def g(c):\n    if c:\n        return 1\n    else:\n        return 2\na = (g(True), g(False))\n", "a", ["core"])
atom("redundant_elif_return", "def g(c):\n    if c > 1:\n        return 1\n    elif c > 0:\n        return 2\n    else:\n        return 3\na = (g(2), g(1), g(0))\n", "a")
atom("redundant_else_raise", "def g(c):\n    if c:\n        raise ValueError(c)\n    else:\n        note(2)\n    return 3\ntry:\n    a = g(q)\n    g(p)\nexcept ValueError:\n    note('ve')\n", "a")
atom("redundant_else_continue", "for i in xs:\n    if i > 1:\n        continue\n    else:\n        note(i)\n    note(-i)\n")
atom("else_not_redundant", "def g(c):\n    if c:\n        note(1)\n    else:\n        return 2\n    return 3\na = (g(True), g(False))\n", "a")
atom("if_return_bool", "def g(c):\n    if c > 1:\n        return True\n    return False\na = (g(2), g(0))\n", "a", ["core"])
atom("if_return_nonbool", "def g(c):\n    if c:\n        return True\n    return False\na = (g(2), g(0))\n", "a")
atom("if_return_neg", "def g(c):\n    if c > 1:\n        return False\n    return True\na = (g(2), g(0))\n", "a")
atom("if_return_else", "def g(c):\n    if c > 1:\n        return True\n    else:\n        return False\na = (g(2), g(0))\n", "a")
atom("if_assign_bool", "if v > 1:\n    b = True\nelse:\n    b = False\n", "b")
atom("if_assign_neg", "if v > 1 and p:\n    b = False\nelse:\n    b = True\n", "b")
atom("if_assign_nonbool", "if v:\n    b = True\nelse:\n    b = False\n", "b")
atom("simplify_if_control_flow", "def g(c, a1, a2):\n    if c:\n        note(a1)\n        note(a1 + 1)\n        note(a1 + 2)\n        note(a1 + 3)\n    else:\n        note(a2)\n        note(a2 + 1)\n        note(a2 + 2)\n        note(a2 + 3)\n    return 0\ng(p, 1, 2)\ng(q, 3, 4)\n")
# ---- (F) iteration helpers
atom("redundant_enumerate", "for _, w in enumerate(xs):\n    note(w)\n", "", ["core"])
atom("enumerate_used", "for i, w in enumerate(xs):\n    note((i, w))\n")
atom("unused_zip", "for _, w in zip(xs, ys):\n    note(w)\n")
atom("unused_zip_effect", "for _, w in zip(note(xs), ys):\n    note(w)\n")
atom("unused_zip_short", "for _, w in zip([1], ys):\n    note(w)\n")
atom("map_lambda", "r = list(map(lambda w: w + 1, xs))\n", "r", ["core"])
atom("map_lambda_two", "r = list(map(lambda w, u: w + u, xs, ys))\n", "r")
atom("filter_lambda", "r = list(filter(lambda w: w > 1, xs))\n", "r")
atom("filter_none", "r = list(filter(None, [0, 1, 2]))\n", "r")
atom("with_filter", "for w in [0, 1, 2]:\n    if w:\n        note(w)\n", "", ["core"])
atom("with_filter_neg", "for w in [0, 1, 2]:\n    if not w:\n        continue\n    note(w)\n")
atom("with_filter_call", "for w in [0, 1, 2]:\n    if ident(w):\n        note(w)\n")
atom("with_filter_else", "for w in [0, 1, 2]:\n    if w:\n        note(w)\n    else:\n        note('z')\n")
atom("chained_comps", "r = [w for w in [w for w in xs if w > 1] if w < 3]\n", "r")
atom("comp_casts", "r = list(w for w in xs)\nr2 = set([w for w in xs])\nr3 = list({w for w in xs})\n", "r, sorted(r2), sorted(r3)")
atom("comp_casts_iter", "r = next(iter([w for w in xs]))\n", "r")
atom("chain_casts", "r = list(itertools.chain(xs, ys))\nr2 = tuple(itertools.chain(xs))\n", "r, r2")
atom("functions_literals", "r = list()\nr2 = tuple([1, 2])\nr3 = set((1, 2))\nr4 = dict()\nr5 = list((1, 2))\n", "r, r2, r3, r4, r5", ["core"])
atom("collection_add_update", "r = [1]\nr.append(2)\nr.extend([3])\nr2 = {1}\nr2.add(2)\nr2.update((3, 4))\n", "r, sorted(r2)")
atom("collection_add_alias", "r = [1]\nr9 = r\nr.append(2)\n", "r, r9")
atom("collection_unpacks", "r = [*[1, 2], 3]\nr2 = (*(1, 2), *[3])\nr3 = {*{1, 2}, 3}\n", "r, r2, sorted(r3)")
atom("dup_set_elts", "r = {1, 2, 1}\n", "sorted(r)")
atom("starred_args", "a = max(*[1, 2], 3)\n", "a")
# ---- (D) loops -> comprehensions
atom("loop_list_comp", "r = []\nfor w in xs:\n    if w > 1:\n        r.append(w * 2)\n", "r", ["core"])
atom("loop_list_comp_effect", "r = []\nfor w in xs:\n    r.append(note(w))\n", "r")
atom("loop_list_comp_prior_use", "r = []\nr9 = r\nfor w in xs:\n    r.append(w)\n", "r, r9")
atom("loop_set_comp", "r = set()\nfor w in xs:\n    r.add(w * 2)\n", "sorted(r)")
atom("loop_sum", "acc = 0\nfor w in xs:\n    acc += w\n", "acc")
atom("loop_sum_nonzero", "acc = 5\nfor w in xs:\n    acc -= w\n", "acc")
atom("loop_sum_range", "acc = 0\nfor w in range(4):\n    acc += w\n", "acc")
atom("loop_count_if", "acc = 0\nfor w in xs:\n    if w > 1:\n        acc += 1\n", "acc")
atom("setcomp_add", "r = {w for w in xs}\nfor u in ys:\n    r.add(u)\n", "sorted(r)")
atom("listcomp_append", "r = [w for w in xs]\nfor u in ys:\n    r.append(u)\nr.extend(ys)\n", "r")
atom("loop_dict_comp", "r = {}\nfor w in xs:\n    r[w] = w * 2\n", "r", ["core"])
atom("loop_dict_comp_if", "r = {}\nfor w in xs:\n    if w != 1:\n        r[w] = w * 2\n", "r")
atom("nested_loops_extend", "r = []\nfor w in xs:\n    for u in ys:\n        r.extend([w + u])\n", "r")
atom("nested_loops_append", "r = []\nfor w in xs:\n    for u in ys:\n        if u > w + 2:\n            r.append((w, u))\n", "r")
atom("nested_comprehensions", "r = [w for w in [u for u in xs]]\n", "r")
atom("nested_comprehensions2", "r = [w + 1 for w in [u * 2 for u in xs if u > 1]]\n", "r")
atom("redundant_starred", "r = [*(w for w in xs)]\nr2 = (*[w for w in xs],)\n", "r, r2")
atom("dict_keys_subscript", "r = [d[k] for k in d.keys()]\n", "r")
atom("dict_items_unused", "for k, _ in d.items():\n    note(k)\nfor _, w in d.items():\n    note(w)\n", "", ["core"])
atom("for_keys_subscript", "for k in d.keys():\n    note(d[k])\n")
atom("for_keys_subscript_mut", "d2 = dict(d)\nfor k in list(d2.keys()):\n    d2[k] = d2[k] + 1\n", "d2")
atom("in_keys", "b = 1 in d.keys()\nb2 = 10 in d.values()\n", "b, b2")
# ---- (E) collection literals / dicts
atom("dict_assign_literal", "r = {}\nr[1] = 2\nr[3] = 4\n", "r")
atom("dict_assign_literal_selfref", "r = {1: 1}\nr[2] = len(r)\n", "r")
atom("dict_update_literal", "r = {1: 2}\nr.update({3: 4})\n", "r")
atom("dictcomp_assign", "r = {w: 1 for w in xs}\nr[9] = 4\n", "r")
atom("dictcomp_update", "r = {w: 1 for w in xs}\nr.update({9: 4})\n", "r")
atom("dict_unpacks", "r = {**{1: 2}, 3: 4}\n", "r")
atom("dup_dict_keys", "r = {1: 2, 1: 3}\n", "r", ["core"])
atom("dup_dict_keys_effect", "r = {1: note(2), 1: note(3)}\n", "r")
atom("subscript_looping", "r = [xs[i] for i in range(len(xs))]\n", "r")
atom("subscript_looping_complex", "r = [xs[i] + 1 for i in range(len(xs))]\n", "r")
atom("subscript_looping_2d", "m = [[1, 2], [3, 4]]\nr = [m[i][0] for i in range(len(m))]\n", "r")
atom("transposes", "r = list(zip(*zip(*[xs, ys])))\n", "r")
atom("implicit_defaultdict", "r = {}\nfor w in xs:\n    if w % 2 in r:\n        r[w % 2].append(w)\n    else:\n        r[w % 2] = [w]\n", "dict(r)")
atom("implicit_defaultdict2", "r = {}\nfor w in xs:\n    if w % 2 not in r:\n        r[w % 2] = []\n    r[w % 2].append(w)\n", "sorted(r.items())")
atom("redundant_lambda", "f2 = lambda: []\nf3 = lambda w: ident(w)\na = (f2(), f3(1))\n", "a")
atom("redundant_comprehension", "r = [w for w in xs]\nr2 = {k: w for k, w in d.items()}\n", "r, r2")
atom("redundant_comprehension_call", "r = list(w for w in xs)\n", "r")
# ---- (G) boolean / comparison / range / sum
atom("boolop_values", "b = p and True and True\nb2 = q or False or 0\n", "b, b2", ["core"])
atom("boolop_values_nonbool", "b = v and 1\nb2 = 0 or v\nb3 = v or 0\n", "b, b2, b3")
atom("bool_bounds", "b = v > 1 and v > 0\nb2 = v > 1 or v > 0\nb3 = v == 1 and v == 2\n", "b, b2, b3")
atom("bool_bounds_gte", "b = [w > 2 and w >= 2 for w in (1, 2, 3)]\nb2 = [w > 2 or w >= 2 for w in (1, 2, 3)]\n", "b, b2")
atom("constrained_range", "r = [i for i in range(10) if i > 5]\nr2 = [i for i in range(2, 8) if i <= 4]\n", "r, r2", ["core"])
atom("bool_symmath", "b = (p and q) or (p and not q)\n", "b")
atom("inline_math_comp", "w = [u for u in xs]\ntotal = sum(w)\n", "total")
atom("math_iterators", "total = sum(range(5))\ntotal2 = sum([1, 2, 3])\ntotal3 = sum(i * 2 for i in range(4))\n", "total, total2, total3")
atom("negated_comparison", "b = not v > 1\nb2 = not v == 2\nb3 = not v in xs\n", "b, b2, b3")
atom("contains_types", "b = 2 in [1, 2, 3]\nb2 = v in list(xs)\nb3 = v in [w for w in xs]\n", "b, b2, b3")
atom("chained_calls", "r = sorted(list(xs))\nr2 = list(reversed(sorted(xs)))\nr3 = sum(list(xs))\n", "r, r2, r3")
atom("chained_calls2", "r = sorted(sorted(xs), reverse=True)\nr2 = list(sorted(xs))\nr3 = set(set(xs))\nr4 = tuple(list(xs))\n", "r, r2, sorted(r3), r4")
atom("redundant_iter", "for w in list(xs):\n    note(w)\nr = [w for w in iter(xs)]\n", "r")
atom("redundant_iter_mut", "zs = [1, 2, 3]\nfor w in list(zs):\n    if w == 1:\n        zs.remove(w)\n", "zs")
atom("sorted_heapq", "a = sorted(xs)[0]\na2 = sorted(xs)[-1]\na3 = sorted(xs)[:2]\na4 = sorted(xs, key=lambda w: -w)[0]\n", "a, a2, a3, a4")
# ---- (K) misc
atom("context_manager", "fh = open(FIXTURE)\ntxt = fh.read()\nfh.close()\n", "txt")
atom("duplicate_functions", "def f1(w):\n    return w + 1\ndef f2(w):\n    return w + 1\na = (f1(1), f2(2))\n", "a", ["core"])
atom("duplicate_functions_docs", "def f3(w):\n    'doc a'\n    return w + 1\ndef f4(w):\n    'doc b'\n    return w + 1\na = (f3(1), f4(2))\n", "a")
atom("duplicate_imports", "import math\nimport math\nfrom os import sep\nfrom os import sep, linesep\na = (math.floor(1.5), sep)\n", "a")
atom("blank_lines", "a = 1\n\n\n\n\nb = 2\n", "a, b")
atom("overused_constant", "".join("r%d = ident('abcdefghijklmnopqrstuvwxyz')\n" % i for i in range(6)), "r0, r5")
atom("assign_immediate_return", "def g():\n    w = ident(1)\n    return w\na = g()\n", "a")
atom("naming", "myVar = 1\ndef myFunc(someArg):\n    localVar = someArg + myVar\n    return localVar\nclass my_class:\n    classAttr = 2\na = (myFunc(1), my_class.classAttr)\n", "a", ["core"])
atom("naming_local_only", "def g2(someArg):\n    localVar = someArg + 1\n    return localVar\na = g2(1)\n", "a")
atom("naming_collision", "def g3():\n    myVar = 1\n    my_var = 2\n    return (myVar, my_var)\na = g3()\n", "a")
atom("unused_imports", "import os\nimport json, re\nfrom typing import List, Dict\na = re.sub('a', 'b', 'aa')\n", "a", ["core"])
atom("unsorted_imports", "import re\nimport os\nimport json\na = (re.escape('.'), os.sep, json.dumps(1))\n", "a")
atom("import_alias", "import os.path as osp\nfrom json import dumps as jd\na = (osp.basename('a/b'), jd([1]))\n", "a")
atom("long_line", "a = ident(1) + ident(2) + ident(3) + ident(4) + ident(5) + ident(6) + ident(7) + ident(8) + ident(9) + ident(10) + ident(11) + ident(12)\n", "a")
atom("long_string", "a = 'lorem ipsum dolor sit amet consectetur adipiscing elit sed do eiusmod tempor incididunt ut labore et dolore magna'\n", "a")
atom("logging_percent", "logging.basicConfig(stream=sys.stdout, level=logging.INFO, format='%(message)s', force=True)\nlogging.info('val %s' % v)\n")
atom("logging_fstring", "logging.basicConfig(stream=sys.stdout, level=logging.INFO, format='%(message)s', force=True)\nlogging.info(f'val {v}')\nlogging.info('val {}'.format(v))\n")
atom("invalid_escape", "t2 = '\\d+'\n", "t2")
atom("star_import", "from math import *\na = floor(2.5)\n", "a", ["module_only"])
atom("multiline_string", "t3 = '''line1\n  line2\n\n\tline4  \n'''\n", "repr(t3)")
atom("fstring_nested", "t4 = f\"{v!r:>4} {t + 'x'} {xs[0]:02d}\"\n", "t4")
atom("walrus", "if (n2 := len(xs)) > 2:\n    note(n2)\n", "n2")
atom("lambda_default", "fs = [lambda w=w: w for w in xs]\na = [f() for f in fs]\n", "a")
atom("generator_fn", "def gen():\n    yield note(1)\n    yield note(2)\na = list(gen())\n", "a")
atom("try_finally", "def g():\n    try:\n        return note(1)\n    finally:\n        note(2)\na = g()\n", "a")
atom("global_stmt", "cnt = 0\ndef bump():\n    global cnt\n    cnt += 1\n    return cnt\nbump(); bump()\n", "cnt", ["module_only"])
atom("nonlocal_stmt", "def outer():\n    n = 0\n    def inner():\n        nonlocal n\n        n += 1\n        return n\n    inner()\n    return inner()\na = outer()\n", "a")
atom("semicolons", "a = 1; b = 2; note(a + b)\n", "a, b")
atom("match_stmt", "def g(w):\n    match w:\n        case 1:\n            return 'one'\n        case [x0, y0]:\n            return x0 + y0\n        case _:\n            return 'other'\na = (g(1), g([1, 2]), g(3))\n", "a")
atom("numpy_dot", "import numpy as np\nu1 = np.array([1, 2, 3])\nu2 = np.array([4, 5, 6])\na = sum(x0 * y0 for x0, y0 in zip(u1, u2))\n", "int(a)", ["numpy"])
atom("numpy_matmul_T", "import numpy as np\nm1 = np.array([[1, 2], [3, 4]])\nm2 = np.array([[5, 6], [7, 8]])\na = np.matmul(m1.T, m2.T).T\n", "a.tolist()", ["numpy"])
atom("numpy_implicit_matmul", "import numpy as np\nm1 = np.array([[1, 2], [3, 4]])\nm2 = np.array([[5, 6], [7, 8]])\na = np.array([[np.dot(m1[i, :], m2[:, j]) for j in range(2)] for i in range(2)])\n", "a.tolist()", ["numpy"])

PANDAS_STANDIN = (
    "class Frame:\n"
    "    def __init__(self, rows):\n        self.rows = rows\n        self.index = list(range(len(rows)))\n"
    "    class _Cell:\n        def __init__(self, f):\n            self.f = f\n"
    "        def __getitem__(self, k):\n            r, c = k\n"
    "            row = self.f.rows[r]\n            return row[c] if isinstance(c, str) else list(row.values())[c]\n"
    "    loc = property(lambda self: Frame._Cell(self))\n    at = property(lambda self: Frame._Cell(self))\n"
    "    iloc = property(lambda self: Frame._Cell(self))\n    iat = property(lambda self: Frame._Cell(self))\n"
    "    def iterrows(self):\n        for i, r in enumerate(self.rows):\n            yield i, Row(r)\n"
    "    def itertuples(self):\n        T = collections.namedtuple('Pandas', ['Index'] + list(self.rows[0]))\n"
    "        for i, r in enumerate(self.rows):\n            yield T(i, *r.values())\n"
    "class Row(dict):\n    at = property(lambda self: self)\n    iat = property(lambda self: list(self.values()))\n"
    "df = Frame([{'value': 1, 'w': 2}, {'value': 3, 'w': 4}])\n"
    # the stand-in lives in the same file only because pandas cannot be installed: keep every member "used"
    "warm = (df.index, list(df.itertuples()), list(df.iterrows()), df.at[0, 'w'], df.iat[0, 0], df.loc[0, 'w'], df.iloc[0, 0],\n"
    "        Row({'w': 1}).at, Row({'w': 1}).iat)\n"
)
atom("pandas_loc_at", PANDAS_STANDIN + "y1 = df.loc[1, 'value']\ny2 = df.iloc[0, 1]\n", "y1, y2", ["pandas"])
atom("pandas_iterrows_index", PANDAS_STANDIN + "for i0, _ in df.iterrows():\n    note(i0)\nr = [i1 for i1, _ in df.iterrows()]\n", "r", ["pandas"])
atom("pandas_iterrows_itertuples", PANDAS_STANDIN + "for _, row in df.iterrows():\n    note(row['value'])\n    note(row.at['w'])\n    note(row.iat[1])\n", "", ["pandas"])
atom("numpy_matmul_comp", "import numpy as np\nm1 = np.array([[1, 2], [3, 4]])\nm2 = np.array([[5, 6], [7, 8]])\nu0 = np.array([[np.dot(a_, b_) for a_ in m1] for b_ in m2.T]).T\n", "u0.tolist()", ["numpy"])
atom("pure_helper_stmt", "def pure0():\n    return 1\npure0()\nident(2)\nnote(pure0())\n")
atom("missing_import_uncalled", "def uncalled():\n    return Path('x'), Sequence\nnote(uncalled.__doc__)\n")
atom("implicit_defaultdict3", "r = {}\nfor w in xs:\n    if w not in r:\n        r[w] = []\n    r[w].append(w * 2)\n", "dict(r)")
atom("implicit_defaultdict_set", "r = {}\nfor w in xs:\n    if w not in r:\n        r[w] = set()\n    r[w].add(w * 2)\n", "dict(r)")
atom("logging_percent_args", "logging.basicConfig(stream=sys.stdout, level=logging.INFO, format='%(message)s', force=True)\nlogging.info('val %s' % (v,))\nlogging.info('val %s and %d' % (v, 3))\nlogging.warning('w %s' % t)\n")
atom("collection_add_selfref", "r = [1]\nr.append(len(r))\nr2 = {1}\nr2.add(len(r2) + 5)\n", "r, sorted(r2)")
atom("dict_update_selfref", "r = {1: 2}\nr.update({3: len(r)})\n", "r")
atom("dictcomp_assign_selfref", "r = {w: 1 for w in xs}\nr[9] = len(r)\n", "r")
atom("listcomp_append_selfref", "r = [w for w in xs]\nfor u in ys:\n    r.append(u + len(r))\n", "r")

# ---- size families: rules with numeric thresholds on block sizes (early_continue, early_return, swap_if_else,
# remove_redundant_else, simplify_if_control_flow, breakout_common_code_in_ifs) see every (body size, else size) around
# their thresholds (added after the seeded change C02-early-continue-drops-else, which needed a body of >= 5 statements
# together with an else of 1-2 statements)
def _notes(prefix, n, indent):
    return "".join("%snote(%s + %d)\n" % (" " * indent, prefix, j) for j in range(n))


for _b in (1, 2, 3, 4, 5, 6, 7):
    for _e in (0, 1, 2, 3):
        _else = ("    else:\n" + _notes("-i", _e, 8)) if _e else ""
        atom("size_loop_if[b=%d,e=%d]" % (_b, _e), "for i in xs:\n    if i > 1:\n" + _notes("i", _b, 8) + _else, "", ["size"])
        _else = ("    else:\n" + _notes("-c", _e, 8)) if _e else ""
        atom("size_fn_if_return[b=%d,e=%d]" % (_b, _e),
             "def g(c):\n    if c > 1:\n" + _notes("c", _b, 8) + "        return c\n" + _else + "    return -c\na = (g(1), g(2))\n", "a", ["size"])
        if _e:
            atom("size_if_else[b=%d,e=%d]" % (_b, _e),
                 "def g(c):\n    if not c:\n" + _notes("c", _b, 8) + "    else:\n" + _notes("-c", _e, 8) + "    return 0\na = (g(0), g(3))\n", "a", ["size"])

# ---- evaluation order and snapshots (added after the seeded changes C02-merge-chained-comps-if-order and
# C01-inline-math-comprehension-mutated-dependency): a filter that guards a partial operation in a later filter or
# element, with effects visible through note(); a collection computed from a container that is then mutated in
# place before the single use of the collection
atom("guarded_chained_comps", "zs = [0, 1, 2, 5]\nr = [20 // w for w in [w for w in zs if w != 0] if 20 // w > 3]\n"
     "r2 = {d[k] for k in {k for k in (1, 3, 9) if k in d} if d[k] > 1}\n", "r, sorted(r2)", ["alone"])
atom("guarded_chained_comps_effect", "r = [w for w in [w for w in xs if note(w) > 1] if note(-w) < -2]\n"
     "r2 = list(w for w in (w for w in xs if w != 2) if note(10 // (w - 2)))\n", "r, r2", ["alone"])
atom("guarded_two_ifs", "zs = [0, 1, 2, 5]\nr = [20 // w for w in zs if w != 0 if 20 // w > 3]\nr2 = [w for w in zs if w and 20 // w > 3]\n"
     "r3 = []\nfor w in zs:\n    if w != 0:\n        if 20 // w > 3:\n            r3.append(w)\n", "r, r2, r3", ["alone"])
for _mut, _stmt in (("clear", "queue.clear()"), ("append", "queue.append('ghij')"), ("setitem", "queue[0] = ''"), ("delitem", "del queue[0]"),
                    ("call", "ident(queue).pop()"), ("augassign", "queue += ['xyz']"), ("rebind", "queue = []"), ("none", "pass")):
    atom("snapshot_then_mutate[%s]" % _mut, "queue = ['ab', 'cde', 'f']\nsizes = [len(item) for item in queue]\n%s\na = (sum(sizes), len(queue))\n"
         "queue = ['ab', 'cde']\nlong = sorted(queue)\n%s\nb = (len(long), len(queue))\n" % (_stmt, _stmt), "a, b", ["alone"])
# nested f-strings whose inner spelling is not the canonical one, inside statements that alter_code-based rules re-emit
# (added after the seeded change C03-replace-nodes-validates-input)
atom("nested_fstring_in_loop_tail_if", "rows = [(1, 2), (), (3,)]\nfor row in rows:\n    if row:\n        total = sum(row)\n"
     "        note(f\"row: {', '.join(f'{c0*2:>4}' for c0 in row)}\")\n        note(f'{len(row)!r:>3}' f\"{row[0]:{'>'}{4}}\")\n        note(total)\n        note(2)\n        note(3)\n        note(4)\n", "", ["alone"])
atom("nested_fstring_in_if_else_swap", "for row in [(1, 2), ()]:\n    if not row:\n        pass\n    else:\n        note(f\"row: {', '.join(f'{c0*2:>4}' for c0 in row)}\")\n        note(f'{len(row)!r:>3}')\n", "", ["alone"])
atom("nested_fstring_in_with_candidate", "f3 = open(FIXTURE)\ntxt = f3.read()\nnote(f\"got: {', '.join(f'{c!r:>4}' for c in txt[:2])}\")\nf3.close()\n", "txt", ["alone"])
atom("nested_fstring_in_loop_invariant", "r = []\nfor i in range(2):\n    label = f\"k={', '.join(f'{c:>2}' for c in 'ab')}\"\n    r.append(label + str(i))\n", "r", ["alone"])

# statements laid out the way black does: one argument per line, the CLOSING bracket alone at the statement's own
# indentation (column 0 at module level), each on a construct some rule rewrites or removes (family added after the seeded
# change C20-ignore-bisect-closing-line: a range whose last character is the first character of its last line)
for _nm, _code, _obs in (
    ("cast_of_comprehension", "a = list(\n    [w * 2 for w in xs]\n)\n", "a"),
    ("chained_call", "a = sorted(\n    list(xs)\n)\n", "a"),
    ("pointless_literal", "a = 1\n[\n    1,\n    2,\n]\n", "a"),
    ("duplicate_keys", "a = {\n    1: 10,\n    1: 20,\n}\n", "a"),
    ("set_of_list", "a = set(\n    [1, 2]\n)\n", "sorted(a)"),
    ("dead_if_test", "a = 0\nif (\n    0\n):\n    a = note(1)\n", "a"),
    ("constant_ifexp", "a = (\n    xs[0] if True else 0\n)\n", "a"),
    ("sum_of_list_comp", "a = sum(\n    [w for w in xs]\n)\n", "a"),
    ("loop_over_list_call", "for w in (\n    list(xs)\n):\n    note(w)\n", ""),
    ("call_statement", "note(\n    len(list(xs))\n)\n", ""),
    ("nested_brackets", "a = dict(\n    [\n        (1, 2),\n    ]\n)\n", "a"),
    ("tuple_unpack", "(\n    a,\n    b,\n) = (\n    list(xs),\n    2,\n)\n", "a, b"),
):
    atom("closing_bracket_own_line[%s]" % _nm, _code, _obs, ["alone"])

# every cast x every comprehension kind, over elements with duplicates (family added after the seeded change
# C02-iter-of-set-comprehension: iter({...}) lost the set's deduplication)
for _f in ("iter", "list", "set", "tuple", "sorted", "frozenset", "reversed_list"):
    _calls = []
    for _k, _comp in (("list", "[w % 2 for w in ws]"), ("set", "{w % 2 for w in ws}"), ("dict", "{w % 2: w for w in ws}"), ("gen", "(w % 2 for w in ws)")):
        _inner = "list(reversed(list(%s)))" % _comp if _f == "reversed_list" else "%s(%s)" % (_f, _comp)
        _calls.append("sorted(%s)" % _inner)
        _calls.append("len(list(%s))" % _inner)
    atom("cast_of_comprehension_kind[%s]" % _f, "ws = [3, 1, 2, 3, 1]\na = (%s)\n" % ", ".join(_calls), "a", ["alone"])

# a loop body that rebinds a name its own header reads, to a loop-invariant value (added after the seeded change
# C01-move-before-loop-ignores-iterable: hoisting the assignment in front of the loop changes what is iterated)
atom("loop_rebinds_header_name", "def drain(pending):\n    r = []\n    for job in pending:\n        r.append(job * 2)\n        pending = []\n    return r, pending\n"
     "def steps(limit):\n    r = []\n    for step in range(limit):\n        r.append(step)\n        limit = 5\n    return r, limit\n"
     "def spin(go):\n    n = 0\n    while go:\n        n += 1\n        go = False\n    return n, go\n"
     "a = (drain([1, 2, 3]), steps(2), spin(True))\n", "a", ["alone"])

# two classes whose static methods have the same name and different bodies (added after the seeded change
# C19-static-extraction-name-collision-guard: both were extracted to module level under one generated name)
atom("two_classes_same_static_name", "class Circle:\n    @staticmethod\n    def describe(v):\n        return 'circle %s' % v\n    def area(self):\n        return self.describe(1)\n"
     "class Square:\n    @staticmethod\n    def describe(v):\n        return 'square %s' % v\n    @staticmethod\n    def sides():\n        return 4\n"
     "class Dot:\n    @staticmethod\n    def sides():\n        return 0\n"
     "a = (Circle.describe(2), Square.describe(3), Square.sides(), Dot.sides(), Circle().area())\n", "a", ["alone"])

atom("twin_literals", "e0 = 12\nunit = 'ms'\nspec = 'd'\na = (f'{e0}ms', unit, f'{e0:d}', spec, f'{e0:>4}' '>4', f'''{e0}\nms''', 'ms', \"ms\", r'ms')\n", "a", ["alone"])

# ---- shadowing family: an outer variable the naming rule renames x an inner function whose parameter of each kind has
# the same name (added after the seeded change C01-rename-shadow-kwonly-param: only ordinary parameters were enumerated)
for _kind, _head, _use, _call in (
    ("param", "def clip_k(values, limitValue=2):", "limitValue", "clip_k([1, 2, 3], limitValue=1)"),
    ("kwonly", "def clip_k(values, *, limitValue=2):", "limitValue", "clip_k([1, 2, 3], limitValue=1)"),
    ("posonly", "def clip_k(values, limitValue=2, /):", "limitValue", "clip_k([1, 2, 3], 1)"),
    ("vararg", "def clip_k(values, *limitValue):", "len(limitValue)", "clip_k([1, 2, 3], 1, 2)"),
    ("starkwarg", "def clip_k(values, **limitValue):", "len(limitValue)", "clip_k([1, 2, 3], zz=1)"),
):
    atom("shadow_outer_by_%s" % _kind,
         "limitValue = 3\n" + _head + "\n    return [w for w in values if w <= %s]\n" % _use
         + "a = (clip_k([1, 2, 3, 4]), %s, limitValue)\n" % _call, "a", ["size"])

CORE = [n for n, a in ATOMS.items() if "core" in a["tags"]]

# "tail": the atom is the last thing in a block that is itself last in a function, so the line below is dedented twice
# (context added after breakout_common_code_in_ifs was found to insert moved code into the middle of that line)
CONTEXTS = ("module", "function", "loop", "method", "tail")


def contexts_of(name):
    if "size" in ATOMS[name]["tags"] or "alone" in ATOMS[name]["tags"]:
        return ("module", "function", "tail")
    if "pandas" in ATOMS[name]["tags"]:
        return ("module", "function", "loop", "method")
    return ("module", "loop") if "module_only" in ATOMS[name]["tags"] else CONTEXTS


def program_space(tier):
    """The enumerated closed-program space of a tier: list of {"atoms": [...], "ctx": str}."""
    out = []
    for n in ATOMS:
        for ctx in contexts_of(n):
            out.append({"atoms": [n], "ctx": ctx})
    core = CORE
    for a in core:
        for b in core:
            for ctx in ("module", "function"):
                out.append({"atoms": [a, b], "ctx": ctx})
    if tier == "thorough":
        coreset = set(core)
        for a in ATOMS:
            if a in coreset or "size" in ATOMS[a]["tags"] or "alone" in ATOMS[a]["tags"]:
                continue  # size families are explored alone (their point is the threshold, not the interaction)
            for b in core:
                for pair in ((a, b), (b, a)):
                    ctxs = ("module",) if "module_only" in ATOMS[a]["tags"] else ("module", "function")
                    for ctx in ctxs:
                        out.append({"atoms": list(pair), "ctx": ctx})
        k3 = core[:12]
        for a in k3:
            for b in k3:
                for c in k3:
                    out.append({"atoms": [a, b, c], "ctx": "module"})
    return out


def build(names, ctx="module", trailing_newline=True):
    """Assemble a closed program: prelude + atoms (each followed by a print of its observables) + log."""
    body = []
    for n in names:
        a = ATOMS[n]
        body.append(a["code"])
        if a["obs"]:
            body.append("print(%s)\n" % a["obs"])
    body = "".join(body)
    ind = lambda s, k: "".join((" " * k + ln if ln.strip() else ln) for ln in s.splitlines(keepends=True))
    if ctx == "module":
        prog = PRELUDE + body + "print(LOG)\n"
    elif ctx == "function":
        prog = PRELUDE + "def main_fn():\n" + ind(body, 4) + "    return 0\nmain_fn()\nprint(LOG)\n"
    elif ctx == "loop":
        prog = PRELUDE + "for rep in range(2):\n" + ind(body, 4) + "    note(rep)\nprint(LOG)\n"
    elif ctx == "tail":
        # the last atom's code ends the `if p:` block; its observables are printed one level further out
        last = ATOMS[names[-1]]
        head = "".join(ATOMS[n]["code"] + ("print(%s)\n" % ATOMS[n]["obs"] if ATOMS[n]["obs"] else "") for n in names[:-1])
        prog = (PRELUDE + "def main_fn():\n    if p:\n" + ind(head + last["code"], 8)
                + ("    print(%s)\n" % last["obs"] if last["obs"] else "") + "main_fn()\nprint(LOG)\n")
    elif ctx == "method":
        prog = PRELUDE + "class Ctx:\n    def run(self):\n" + ind(body, 8) + "        return self\nCtx().run()\nprint(LOG)\n"
    else:
        raise ValueError(ctx)
    if not trailing_newline:
        prog = prog.rstrip("\n")
    return prog


# ------------------------------------------------------------------------------------------------
# execution oracle

_ROOT = logging.getLogger()


def worker_setup():
    """Per-process: fixture file in the scratch dir, numpy on the path."""
    if os.path.isdir(PYDEPS) and PYDEPS not in sys.path:
        sys.path.append(PYDEPS)
    with open(os.path.join(os.getcwd(), "fixture.txt"), "w") as f:
        f.write("hello\n")


def run_prog(src, limit=5.0):
    """-> (status, stdout): status in ok | syntax | exc:<Type> | timeout"""
    try:
        code = compile(src, "<prog>", "exec")
    except (SyntaxError, ValueError) as e:
        return ("syntax", str(e)[:80])
    buf = io.StringIO()
    for h in list(_ROOT.handlers):
        _ROOT.removeHandler(h)
    status = "ok"
    old_path = list(sys.path)
    try:
        with time_limit(limit):
            with contextlib.redirect_stdout(buf), contextlib.redirect_stderr(io.StringIO()):
                exec(code, {"__name__": "__main__"})
    except CaseTimeout:
        status = "timeout"
    except BaseException as e:  # noqa: BLE001
        status = "exc:" + type(e).__name__
    finally:
        for h in list(_ROOT.handlers):
            _ROOT.removeHandler(h)
        _ROOT.setLevel(logging.WARNING)
        sys.path[:] = old_path
    return (status, buf.getvalue())


def isolated(fn, *args, cpu_limit=20, mem_limit=6 << 30):
    """Run fn(*args) in a forked child under hard CPU / address-space limits and a wall-clock kill.
    -> ("ok", picklable result) | ("killed", reason). For inputs on which a regression makes the tool spin inside
    one C call (9 ** 9 ** 9 ** 9): a signal-based limit never fires there, and the worker would hang with it."""
    import pickle
    import resource
    import select

    r, w = os.pipe()
    pid = os.fork()
    if pid == 0:
        os.close(r)
        try:
            resource.setrlimit(resource.RLIMIT_CPU, (cpu_limit, cpu_limit + 1))
            resource.setrlimit(resource.RLIMIT_AS, (mem_limit, mem_limit))
            payload = pickle.dumps(("ok", fn(*args)))
        except BaseException as e:  # noqa: BLE001
            payload = pickle.dumps(("ok", ("harness_exception", repr(e)[:200])))
        try:
            os.write(w, payload)
        finally:
            os._exit(0)
    os.close(w)
    deadline = time.time() + 3 * cpu_limit + 5
    chunks = []
    try:
        while True:
            left = deadline - time.time()
            if left <= 0:
                os.kill(pid, 9)
                os.waitpid(pid, 0)
                return ("killed", "no answer within %d s wall clock" % (3 * cpu_limit + 5))
            ready, _, _ = select.select([r], [], [], min(left, 1.0))
            if ready:
                b = os.read(r, 1 << 20)
                if not b:
                    break
                chunks.append(b)
        os.waitpid(pid, 0)
    finally:
        os.close(r)
    if not chunks:
        return ("killed", "child died without an answer (CPU limit of %d s or memory limit hit)" % cpu_limit)
    return pickle.loads(b"".join(chunks))


# constant expressions whose value is astronomically large or takes astronomically long to compute (family added after
# a sub-agent reported `if 9 ** 9 ** 9 ** 9:` hanging the formatter); the tool must treat them as unknown
HUGE_EXPRS = [
    "9 ** 9 ** 9 ** 9", "-9 ** 9 ** 9 ** 9", "2 ** (3 ** 100) > 5", "1 << (1 << 40)", "'a' * 10 ** 10", "[0] * 10 ** 9",
    "[0] * 10 ** 3 * 10 ** 3 * 10 ** 3 * 10 ** 3", "10 ** 30 * 10 ** 30 * 10 ** 30", "sum(range(10 ** 10))", "list(range(10 ** 10))",
    "0.5 in range(10 ** 11)", "0.5 not in range(10 ** 30)", "max(range(10 ** 9))", "sorted(range(10 ** 8))", "any(range(10 ** 10))",
    "all(range(1, 10 ** 10))", "tuple(range(10 ** 10))", "len(range(10 ** 10)) > 2", "pow(9, 9 ** 9 ** 9)", "'a'.ljust(10 ** 10)",
    "bytes(10 ** 10)", "str(10 ** 10 ** 10)", "sum(i * i for i in range(10 ** 10))", "sum([1, 2] * 10 ** 9)",
    "[i for i in range(10 ** 10) if i < 3]", "9 ** 9 ** 9 ** 9 and 1", "not 9 ** 9 ** 9 ** 9", "9 ** 9 ** 9 ** 9 == 9 ** 9 ** 9 ** 9",
]


def huge_program(e, pos):
    """The expression sits where the rules evaluate constants; the program text itself is never run."""
    return {
        "if": "def f(x):\n    if %s:\n        print('T')\n    else:\n        print('F')\n" % e,
        "while": "def f(x):\n    while %s:\n        print('T')\n        break\n" % e,
        "value": "def f(x):\n    y = %s\n    return y\n" % e,
        "stmt": "def f(x):\n    %s\n    assert %s\n    return x\n" % (e, e),
        "andor": "def f(x):\n    return (%s) and x, (%s) or x, 1 if %s else 2\n" % (e, e, e),
    }[pos]


HUGE_POSITIONS = ("if", "while", "value", "stmt", "andor")


def compare(orig_outcome, new_src):
    """-> None if equivalent else (kind, detail)"""
    o2 = run_prog(new_src)
    if o2 == orig_outcome:
        return None
    if o2[0] == "syntax":
        return ("invalid_output", o2[1])
    if o2[0] != "ok":
        return (o2[0], o2[1][-80:])
    return ("stdout_diff", _first_diff(orig_outcome[1], o2[1]))


def _first_diff(a, b):
    la, lb = a.splitlines(), b.splitlines()
    for i, (x, y) in enumerate(zip(la, lb)):
        if x != y:
            return "line %d: %r -> %r" % (i, x[:60], y[:60])
    return "length %d -> %d lines" % (len(la), len(lb))


# ------------------------------------------------------------------------------------------------
# rule registry

RULE_MODULES = ["fixes", "performance", "performance_numpy", "performance_pandas", "symbolic_math",
                "object_oriented", "abstractions", "tracing"]
EXCLUDE = {"get_undefined_variables", "create_abstractions"}


@functools.lru_cache(maxsize=None)
def rules():
    """-> dict qualified name -> (callable, extra parameter names)"""
    out = {}
    for m in RULE_MODULES:
        mod = importlib.import_module("pyrefact." + m)
        for n, o in vars(mod).items():
            if callable(o) and getattr(o, "__module__", None) == mod.__name__ and not isinstance(o, type) \
                    and not n.startswith("_") and n not in EXCLUDE:
                try:
                    ps = list(inspect.signature(o).parameters)
                except (TypeError, ValueError):
                    continue
                if ps and ps[0] == "source":
                    out["%s.%s" % (m, n)] = (getattr(o, "__mc_orig__", o), tuple(ps[1:]))
    return out


def call_rule(qname, src, preserve=frozenset()):
    f, extra = rules()[qname]
    kw = {}
    if "preserve" in extra:
        kw["preserve"] = preserve
    if "root_is_static" in extra:
        kw["root_is_static"] = True
    if "max_line_length" in extra:
        kw["max_line_length"] = 100
    return f(src, **kw)


# ------------------------------------------------------------------------------------------------
# rule tracer for format_code

TRACE = None
_DEPTH = 0
_TRACER_INSTALLED = False


def _traced(name, f):
    @functools.wraps(f)
    def w(*a, **k):
        global _DEPTH
        if TRACE is None or _DEPTH > 0:
            return f(*a, **k)
        _DEPTH += 1
        try:
            out = f(*a, **k)
        finally:
            _DEPTH -= 1
        before = a[-1] if name == "processing.minimize_whitespace_line_differences" else (a[0] if a else k.get("source"))
        after = out[0] if isinstance(out, tuple) else out
        if isinstance(before, str) and isinstance(after, str) and before != after:
            TRACE.append((name, before, after))
        return out

    w.__mc_orig__ = f
    return w


def install_tracer():
    global _TRACER_INSTALLED
    if _TRACER_INSTALLED:
        return
    rules()  # freeze the registry with the original callables first
    _TRACER_INSTALLED = True
    for m in RULE_MODULES:
        mod = importlib.import_module("pyrefact." + m)
        for n, o in list(vars(mod).items()):
            if callable(o) and getattr(o, "__module__", None) == mod.__name__ and not isinstance(o, type) \
                    and not n.startswith("_") and n not in EXCLUDE:
                try:
                    ps = list(inspect.signature(o).parameters)
                except (TypeError, ValueError):
                    continue
                if ps and ps[0] == "source":
                    setattr(mod, n, _traced("%s.%s" % (m, n), o))
    import rmspace
    from pyrefact import processing

    rmspace.format_str = _traced("rmspace.format_str", rmspace.format_str)
    processing.minimize_whitespace_line_differences = _traced(
        "processing.minimize_whitespace_line_differences", processing.minimize_whitespace_line_differences)
    orig_chain = processing.chain

    def chain(fix_funcs, *a, **k):
        fix_funcs = tuple(fix_funcs)
        name = "chain(" + ",".join(getattr(f, "__name__", "?") for f in fix_funcs) + ")"
        return _traced(name, orig_chain(fix_funcs, *a, **k))

    processing.chain = chain


def format_code(src, cfg=None, trace=False):
    """cfg: dict(safe, keep_imports, preserve (list), mll). -> out | (out, steps)"""
    global TRACE
    cfg = cfg or {}
    fc = boot.main_module().format_code
    kw = dict(safe=bool(cfg.get("safe")), keep_imports=bool(cfg.get("keep_imports")),
              preserve=frozenset(cfg.get("preserve", ())), max_line_length=cfg.get("mll", 100))
    if not trace:
        return fc(src, **kw)
    install_tracer()
    TRACE = []
    try:
        out = fc(src, **kw)
        return out, TRACE
    finally:
        TRACE = None


def culprit(src, cfg, orig_outcome, judge=None):
    """Re-run format_code with the tracer and name the step after the last text that was still equivalent.

    judge(text) -> True if text is still 'good'. Default: execution oracle against orig_outcome."""
    if judge is None:
        judge = lambda txt: run_prog(txt) == orig_outcome
    try:
        boot.clear_caches()
        out, steps = format_code(src, cfg, trace=True)
    except BaseException as e:  # noqa: BLE001
        steps = TRACE_LAST_ERROR_STEPS()
        return "format_code", []
    if steps and steps[0][1] != src:
        # untraced text normalisation before the first traced stage (str.expandtabs)
        steps = [("str.expandtabs", src, steps[0][1])] + list(steps)
    last_good = -1
    goods = []
    for i, (name, before, after) in enumerate(steps):
        g = judge(after)
        goods.append(g)
    # the culprit is the step that follows the last good text
    for i in range(len(steps) - 1, -1, -1):
        if goods[i]:
            last_good = i
            break
    if last_good + 1 < len(steps):
        return steps[last_good + 1][0], steps
    # every traced step good yet the final output is bad: untraced stage (expandtabs, dedent, indent)
    return "format_code:untraced", steps


def TRACE_LAST_ERROR_STEPS():
    return []


def raising_stage(src, cfg):
    """For a format_code call that raises: the innermost pyrefact function in the traceback."""
    import traceback

    try:
        boot.clear_caches()
        format_code(src, cfg)
    except BaseException as e:  # noqa: BLE001
        tb = traceback.extract_tb(e.__traceback__)
        rule = None
        for fr in tb:
            if "/pyrefact/" in fr.filename and os.path.basename(fr.filename) not in ("main.py", "processing.py"):
                rule = "%s.%s" % (os.path.basename(fr.filename)[:-3], fr.name)
                break
        inner = [fr for fr in tb if "/pyrefact/" in fr.filename][-1]
        return (rule or "main"), "%s:%s" % (os.path.basename(inner.filename)[:-3], inner.name), type(e).__name__
    return None, None, None
