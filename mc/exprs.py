"""E-expr: typed expression grammar enumerated by depth, simplest first (C15, C04)."""
from __future__ import annotations

import functools
import itertools

ATOMS = ["0", "1", "-1", "2", "1.5", "True", "False", "None", "''", "'a'", "()", "(0,)", "[]", "[0]", "{}", "{1}", "x"]
SMALL = ["0", "1", "True", "None", "'a'", "x"]
TINY = ["0", "1", "None", "'a'"]
UNARY = ["not ", "-", "+", "~"]
BINARY = ["+", "-", "*", "/", "//", "%", "**", "<<", "|", "&"]
CMP = ["==", "!=", "<", "<=", ">", ">=", "is", "is not", "in", "not in"]
CALLS1 = ["len", "int", "str", "bool", "abs", "min", "max", "sum", "sorted", "list", "tuple", "range", "round",
          "print", "exit"]
CALLS2 = ["min", "max", "divmod", "round", "range", "int", "print"]
METHODS = [("''.join({a})", 1), ("'a'.upper()", 0), ("'a b'.split()", 0), ("'a'.startswith({a})", 1),
           ("'{{}}'.format({a})", 1), ("(1).bit_length()", 0), ("'a'.count({a})", 1)]

# builtin calls with keyword arguments and a few more argument shapes (added after a sub-agent noted that keyword
# arguments are ignored by the evaluator)
KEYWORD_CALLS = ["int('10', base=2)", "int('10', 2)", "sorted([2, 1], reverse=True)", "sorted([2, 1], reverse=False)", "max([1, -2], key=abs)",
                 "min([], default=0)", "max((), default=None)", "round(1.55, ndigits=1)", "sum([1], start=2)", "sum([1], 2)",
                 "str(b'a', encoding='utf-8')", "str(b'a', 'utf-8')", "print(1, end='')", "dict(a=1)", "dict([(1, 2)], b=3)",
                 "list(range(3))", "tuple('ab')", "len(dict(a=1))", "bool(x=1)", "list(enumerate([1], start=1))", "list(zip([1], [2], strict=True))",
                 "'a b'.split(sep=' ')", "'a'.center(3, '*')", "'{a}'.format(a=1)", "'a,b'.split(',', maxsplit=0)", "divmod(7, -2)",
                 "pow(2, 3, mod=5)", "pow(2, -1)", "abs(-0.0)", "float('nan') == float('nan')", "complex(1, imag=2)"]

# every public callable of the builtins module (a superset of the evaluator's own whitelist constants.SAFE_CALLABLES) with
# no argument, each small atom and each "producer" (one-shot iterators, super(), object()) as the argument: family added
# after the seeded change C15-evaluation-errors-narrowed (next(iter([])) raises StopIteration, bool(super()) RuntimeError).
# Not called by the harness itself: functions that would touch the worker's file descriptors or its interpreter state.
_HARNESS_UNSAFE = {"open", "input", "breakpoint", "exec", "eval", "compile", "__import__", "exit", "quit", "print", "globals", "locals",
                   "setattr", "delattr", "__build_class__", "license",
                   "id", "hash"}  # id()/hash(): the property excludes identity; their values depend on the allocator / hash seed
PRODUCERS = ["iter(())", "iter([0])", "reversed('')", "reversed([1])", "enumerate({})", "zip()", "zip([1], [2])", "filter(None, [0])",
             "map(abs, ())", "range(0)", "super()", "object()", "[0, 1]", "'ab'", "{1: 2}", "b'a'", "ValueError('v')", "int", "len"]


_ADDRESS_BEARING = {"iter(())", "iter([0])", "reversed('')", "reversed([1])", "enumerate({})", "zip()", "zip([1], [2])", "filter(None, [0])",
                    "map(abs, ())", "super()", "object()", "len"}


def builtin_calls():
    import builtins

    names = sorted(n for n in dir(builtins) if callable(getattr(builtins, n)) and n not in _HARNESS_UNSAFE and not n.startswith("_"))
    out = []
    for f in names:
        out.append(f + "()")
        for a in ["0", "1", "'a'", "()", "[0]", "None", "x"] + PRODUCERS:
            if f in ("repr", "str", "ascii", "format") and a in _ADDRESS_BEARING:
                continue  # the text spells the address of a temporary
            out.append("%s(%s)" % (f, a))
    for f in ("next", "getattr", "hasattr", "isinstance", "issubclass", "pow", "divmod", "format", "round", "filter", "map", "zip", "sum"):
        for a in ("iter(())", "0", "'a'", "int", "[1]"):
            for b in ("0", "'real'", "int", "None", "(int, str)"):
                out.append("%s(%s, %s)" % (f, a, b))
    return out


NONSINGLETON_LITERAL = {"''", "'a'", "()", "(0,)", "[]", "[0]", "{}", "{1}", "1.5", "2", "-1", "0", "1"}


def _par(a):
    return a if a.isidentifier() or a.replace(".", "").isdigit() or a[0] in "([{'" else "(" + a + ")"


def depth1(atoms=None, chains=True, builtins_too=False):
    """Every expression of depth <= 1 over the atom alphabet, simplest first, de-duplicated."""
    atoms = atoms or ATOMS
    out = list(atoms)
    for u in UNARY:
        for a in atoms:
            out.append(u + _par(a))
    for op in BINARY:
        for a in atoms:
            for b in atoms:
                out.append("%s %s %s" % (_par(a), op, _par(b)))
    for op in CMP:
        for a in atoms:
            for b in atoms:
                if op in ("is", "is not") and (a in NONSINGLETON_LITERAL or b in NONSINGLETON_LITERAL):
                    continue  # identity of non-singleton literals is implementation defined
                out.append("%s %s %s" % (_par(a), op, _par(b)))
    chain_atoms = [a for a in atoms if a in ("0", "1", "2", "1.5", "x", "None", "'a'", "-1")]
    for op1 in ("<", "<=", "==", "!=", ">") if chains else ():
        for op2 in ("<", ">=", "==", "in"):
            for a, b, c in itertools.product(chain_atoms[:5], repeat=3):
                out.append("%s %s %s %s %s" % (a, op1, b, op2, c))
    for op in ("and", "or"):
        for a in atoms:
            for b in atoms:
                out.append("%s %s %s" % (_par(a), op, _par(b)))
        for a, b, c in itertools.product(SMALL, repeat=3):
            out.append("%s %s %s %s %s" % (a, op, b, op, c))
    for a, b, c in itertools.product(SMALL, repeat=3):
        out.append("%s if %s else %s" % (a, b, c))
    for f in CALLS1:
        out.append(f + "()")
        for a in atoms:
            out.append("%s(%s)" % (f, a))
    for f in CALLS2:
        for a in SMALL + ["2", "1.5"]:
            for b in SMALL + ["2"]:
                out.append("%s(%s, %s)" % (f, a, b))
    for tmpl, n in METHODS:
        if n == 0:
            out.append(tmpl.format())
        else:
            for a in atoms:
                out.append(tmpl.format(a=a))
    if chains:
        out += KEYWORD_CALLS
    if builtins_too:
        out += builtin_calls()
    seen, res = set(), []
    for e in out:
        if e not in seen:
            seen.add(e)
            res.append(e)
    return res


@functools.lru_cache(maxsize=None)
def depth1_full():
    return tuple(depth1(ATOMS, builtins_too=True))


@functools.lru_cache(maxsize=None)
def depth1_small():
    return tuple(depth1(SMALL))


@functools.lru_cache(maxsize=None)
def depth1_tiny():
    return tuple(depth1(["0", "1", "None", "'a'", "x"], chains=False))


def depth2(tier):
    """Depth-2 layer: one operand is a depth-1 expression over the small alphabet, the others are atoms."""
    inner = [e for e in depth1(SMALL if tier == "quick" else SMALL + ["2", "[0]"]) if e not in ATOMS]
    atoms = SMALL
    seen = set()
    for e in inner:
        pe = "(" + e + ")"
        cands = []
        for u in ("not ", "-"):
            cands.append(u + pe)
        for op in ("+", "*", "//", "%", "and", "or", "==", "<", "in", "is"):
            for a in atoms:
                if op == "is" and a in NONSINGLETON_LITERAL:
                    continue
                cands.append("%s %s %s" % (pe, op, a))
                cands.append("%s %s %s" % (a, op, pe))
        for f in ("len", "bool", "int", "abs", "str", "sum", "list"):
            cands.append("%s(%s)" % (f, e))
        cands.append("1 if %s else 2" % pe)
        cands.append("%s if x else 0" % pe)
        for c in cands:
            if c not in seen:
                seen.add(c)
                yield c
