"""C15 - compile-time constant evaluation agrees with Python (expression grammar vs eval; consumers vs execution)."""
from __future__ import annotations

import ast
import contextlib
import io

from mc import boot, exprs, progs
from mc.kernel import key_of, violation

ID = "C15"
LEVEL = "exploration"
RULE = (
    "direct: every expression of depth <= 1 over the full alphabet (17 atoms, 4 unary, 10 binary, 10 comparison "
    "operators incl. chains, and/or with 2-3 operands, conditional expressions, 16 builtins, constant-receiver "
    "methods) and the depth-2 layer (one operand of depth 1 over a 6-atom alphabet) is given to core.literal_value "
    "and to eval(); consumers: each depth-1 expression is put into each consumer position (if / while / and-or "
    "operand / conditional expression; thorough: assert, comprehension filter, for-iterable; the depth-2 layer in if / while / conditional "
    "expression for expressions that do not raise under the driver values) "
    "of a closed driver program that runs it under x in {0, 1, 'a', None}, the five consumer rules (quick: and "
    "format_code on the small alphabet; thorough: format_code on all) rewrite it, original and result are executed. "
    "non-trivial = literal_value returned a value / the consumer changed the text"
)
RULE += (" depth 1 also contains EVERY public callable of the builtins module (minus those unsafe to call inside the harness, and id/hash) with no argument, "
         "7 atoms and 19 producers (one-shot iterators, super(), object(), exceptions, types), and two-argument calls of 13 builtins; values without value "
         "equality are compared by type, texts spelling an address are not compared.")
ASSUMPTIONS = [
    "equality is type(a) is type(b) and a == b; identity tests between non-singleton literals are not enumerated",
    "literal_value may always answer 'unknown' (ValueError); only a value or another exception carries an obligation",
]

POSITIONS_QUICK = ["if", "while", "andor", "ifexp"]
POSITIONS_THOROUGH = POSITIONS_QUICK + ["assert", "compif", "foriter"]
CONSUMERS = ["fixes.remove_dead_ifs", "fixes.delete_unreachable_code", "fixes.remove_redundant_boolop_values",
             "symbolic_math.simplify_boolean_expressions", "fixes.delete_pointless_statements"]


def worker_init():
    import os
    import sys

    progs.worker_setup()
    sys.stdin = open(os.devnull)  # help() and friends read the terminal


def _chunks(seq, n):
    seq = list(seq)
    for i in range(0, len(seq), n):
        yield seq[i : i + n]


def units(tier):
    for ch in _chunks(exprs.depth1_full(), 64):
        yield {"t": "direct", "exprs": ch}
    for ch in _chunks(exprs.depth2(tier), 256):
        yield {"t": "direct", "exprs": ch}
    small = set(exprs.depth1_small())
    for ch in _chunks(exprs.depth1_full(), 24):
        yield {"t": "consumer", "exprs": ch, "fc": [e for e in ch if tier == "thorough" or e in small]}
    if tier == "thorough":
        for ch in _chunks(exprs.depth2(tier), 24):
            yield {"t": "consumer", "exprs": ch, "fc": [], "depth2": True}


# ------------------------------------------------------------------------------------------------


def ref_eval(e):
    """-> ("val", v) | ("raises", Type) | ("prints", text)"""
    buf = io.StringIO()
    try:
        with contextlib.redirect_stdout(buf), contextlib.redirect_stderr(io.StringIO()):
            v = eval(compile(e, "<e>", "eval"), {"__builtins__": __builtins__})
    except BaseException as ex:  # noqa: BLE001
        return ("raises", type(ex).__name__)
    if buf.getvalue():
        return ("prints", buf.getvalue())
    return ("val", v)


_PLAIN = (int, float, complex, str, bytes, bytearray, bool, type(None), range, type(Ellipsis), type(NotImplemented))


def same(a, b):
    """Same type and same value. Values that have no value equality (iterators, object(), memoryview ...) are compared by
    type only; texts that spell an address are not compared (the address of a temporary is not part of the value)."""
    if type(a) is not type(b):
        return False
    try:
        if isinstance(a, (list, tuple)):
            return len(a) == len(b) and all(same(x, y) for x, y in zip(a, b))
        if isinstance(a, dict):
            return same(list(a.items()), list(b.items()))
        if isinstance(a, (set, frozenset)):
            return a == b
        if isinstance(a, slice):
            return same((a.start, a.stop, a.step), (b.start, b.stop, b.step))
        if isinstance(a, str) and " at 0x" in a and " at 0x" in b:
            return True
        if isinstance(a, float) and a != a:
            return b != b
        if isinstance(a, _PLAIN):
            return a == b
        if isinstance(a, type) or type(a).__name__ == "builtin_function_or_method":
            return a is b
        if isinstance(a, BaseException):
            return same(a.args, b.args)
        return True
    except Exception:  # noqa: BLE001
        return False


def check_direct(e):
    from pyrefact import core

    node = ast.parse(e, mode="eval").body
    buf = io.StringIO()
    desc = {"expr": e}
    try:
        with contextlib.redirect_stdout(buf), contextlib.redirect_stderr(io.StringIO()):
            v = core.literal_value(node)
        got = ("val", v)
    except ValueError:
        got = ("unknown", None)
    except BaseException as ex:  # noqa: BLE001
        got = ("crash", type(ex).__name__)
    out = []
    if buf.getvalue():
        out.append(violation("core.literal_value", "effect_executed_by_tool", "literal_value(%s) printed %r" % (e, buf.getvalue()[:40]), desc))
    if got[0] == "crash":
        out.append(violation("core.literal_value", "crash:" + got[1], "literal_value(%s) raised %s instead of ValueError" % (e, got[1]), desc))
    elif got[0] == "val":
        ref = ref_eval(e)
        if ref[0] != "val":
            if not buf.getvalue():
                out.append(violation("core.literal_value", "value_for_" + ref[0], "literal_value(%s) = %r but Python %s %s" % (e, got[1], ref[0], ref[1]), desc))
        elif not same(got[1], ref[1]):
            out.append(violation("core.literal_value", "wrong_value", "literal_value(%s) = %r, Python gives %r" % (e, got[1], ref[1]), desc))
    return out, got[0]


def consumer_program(e, pos):
    head = "def f(x):\n"
    if pos == "if":
        body = "    if %s:\n        print('T')\n    else:\n        print('F')\n    print('after')\n" % e
    elif pos == "while":
        body = "    while %s:\n        print('T')\n        break\n    else:\n        print('F')\n    print('after')\n" % e
    elif pos == "andor":
        body = "    y = (%s) and x\n    z = (%s) or x\n    print(repr(y), repr(z))\n" % (e, e)
    elif pos == "ifexp":
        body = "    y = 1 if %s else 2\n    print(y)\n" % e
    elif pos == "assert":
        body = "    assert %s\n    print('passed')\n" % e
    elif pos == "compif":
        body = "    print([i for i in (1, 2) if %s])\n" % e
    elif pos == "foriter":
        body = "    for _ in %s:\n        print('it')\n    print('after')\n" % e
    else:
        raise ValueError(pos)
    tail = ("for x in (0, 1, 'a', None):\n    try:\n        f(x)\n    except BaseException as err:\n"
            "        print(type(err).__name__)\n")
    return head + body + tail


def check_consumer(e, pos, entry):
    src = consumer_program(e, pos)
    orig = progs.run_prog(src)
    if orig[0] != "ok" or " at 0x" in orig[1]:
        return [], "not_admitted"  # printing an address: the original does not even agree with itself
    desc = {"expr": e, "pos": pos, "entry": entry}
    buf = io.StringIO()
    boot.clear_caches()
    try:
        with contextlib.redirect_stdout(buf):
            out = progs.format_code(src) if entry == "format_code" else progs.call_rule(entry, src)
    except BaseException as ex:  # noqa: BLE001
        if buf.getvalue():
            return [violation(entry, "effect_executed_by_tool", "%s on `%s` in %s printed %r" % (entry, e, pos, buf.getvalue()[:40]), desc)], "blocked"
        return [], "blocked"
    v = []
    if buf.getvalue():
        v.append(violation(entry, "effect_executed_by_tool", "%s on `%s` in %s printed %r" % (entry, e, pos, buf.getvalue()[:40]), desc))
    if out == src:
        return v, "unchanged"
    c = progs.compare(orig, out)
    if c is not None:
        site = entry
        if entry == "format_code":
            site, _ = progs.culprit(src, {}, orig)
        v.append(violation(site, c[0], "`%s` in %s via %s: %s" % (e, pos, entry, c[1]), desc))
    return v, "changed"


def run_unit(unit):
    import os

    res = {"n": 0, "nontrivial": [], "viol": [], "stats": {}, "samples": []}
    st = res["stats"]
    tier = os.environ.get("MC_TIER", "quick")
    if unit["t"] == "direct":
        for e in unit["exprs"]:
            v, kind = check_direct(e)
            res["n"] += 1
            st["direct_" + kind] = st.get("direct_" + kind, 0) + 1
            if kind == "val":
                res["nontrivial"].append(key_of(["d", e]))
                if not res["samples"]:
                    res["samples"].append({"expr": e, "literal_value": "agrees with eval" if not v else "differs"})
            res["viol"].extend(v)
        return res
    positions = POSITIONS_QUICK if tier == "quick" else POSITIONS_THOROUGH
    if unit.get("depth2"):
        # depth 2: condition contexts only, and only expressions that evaluate without raising under every driver
        # value (the depth-1 layer already shows, bounded, what the boolean simplifier does to raising operands and
        # to and/or in value position; at depth 2 those two known findings would only be multiplied)
        positions = ["if", "while", "ifexp"]
    for e in unit["exprs"]:
        if unit.get("depth2"):
            probe = progs.run_prog(consumer_program(e, "ifexp"))
            if probe[0] != "ok" or any(ln and ln[0].isupper() and ln.endswith(("Error", "Exit", "Exception")) for ln in probe[1].splitlines()):
                st["depth2_raising_not_explored"] = st.get("depth2_raising_not_explored", 0) + 1
                continue
        for pos in positions:
            entries = list(CONSUMERS) + (["format_code"] if e in unit["fc"] and pos in ("if", "andor") else [])
            for entry in entries:
                v, kind = check_consumer(e, pos, entry)
                if kind == "not_admitted":
                    st["program_not_admitted"] = st.get("program_not_admitted", 0) + 1
                    break
                res["n"] += 1
                st["consumer_" + kind] = st.get("consumer_" + kind, 0) + 1
                if kind == "changed":
                    res["nontrivial"].append(key_of(["c", e, pos, entry]))
                    if not res["samples"] and not v:
                        res["samples"].append({"expr": e, "position": pos, "entry": entry})
                res["viol"].extend(v)
    return res


def replay(desc):
    progs.worker_setup()
    if "pos" in desc:
        return check_consumer(desc["expr"], desc["pos"], desc["entry"])[0]
    return check_direct(desc["expr"])[0]


def explain(desc):
    if "pos" in desc:
        return consumer_program(desc["expr"], desc["pos"])
    return "eval: %r" % (ref_eval(desc["expr"]),)
