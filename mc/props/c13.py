"""C13 - match objects and the re-like API are geometrically coherent."""
from __future__ import annotations

import ast
import contextlib
import io
import os
import re

from mc.kernel import key_of, violation

ID = "C13"
LEVEL = "exploration"
RULE = (
    "a case = (node kind, layout feature, position, pattern): 17 node kinds (name, call, parenthesised multi-line "
    "expression, assignment, if block, decorated function, decorated class, with, string constant, lambda, attribute "
    "chain, and six kinds with multi-byte characters inside the node) x 24 layout features (plain, indented 4/8, after ';', multi-byte characters earlier on the same line in a "
    "string / comment / identifier, no trailing newline, CRLF, CR, form feed and x1c-x1e, x85, U+2028/9 inside a "
    "literal and between statements, trailing blanks, preceding blank lines, tabs in a comment) x position (first / "
    "middle / last statement) x pattern (own text, wildcard pattern of the kind). oracle for every reported Match: "
    "span inside the source, string == source[span], span == independently computed full text of the matched node "
    "(UTF-8 aware, decorator inclusive), lineno/col of the span start under Python's line-break rules; findall == "
    "finditer texts, search == first finditer, match/fullmatch iff a reported match starts at the first statement / "
    "spans the body, and the command-line finder prints the same line:col and first line. non-trivial = at least one "
    "match was reported"
)
RULE += (" 13 further kinds: several occurrences of the pattern at different depths with the first in source order not the shallowest "
         "(foo.bar(foo), nested calls, repeated statements), decorator spellings '@ dec', '@(dec)', multi-line decorator call, async def, a source ending in '@'.")
ASSUMPTIONS = [
    "reference geometry: ast positions are (line, UTF-8 byte column) with lines ending at LF, CRLF or CR only",
    "the complete text of a decorated definition starts at the first decorator's '@'",
]

KINDS = {
    "name": ("zz", "zz"),
    "call": ("f(x, 1)", "f({{...*}})"),
    "paren_multiline": ("(aa +\n    bb)", "aa + bb"),
    "assign": ("k = f(x)", "k = {{v}}"),
    "if_block": ("if aa:\n    f(x)\n    g()", "if aa:\n    {{...+}}"),
    "decorated_def": ("@dec\n@dec2(1)\ndef fn(a):\n    return a", None),
    "decorated_cls": ("@dec\nclass Cl:\n    y = 1", None),
    "with": ("with cm() as h:\n    f(h)", None),
    "string": ("'lit'", "'lit'"),
    "lambda": ("lambda a: a + 1", "lambda {{a}}: {{b}}"),
    "attr_chain": ("obj.a.b(c)", "{{o}}.b({{...*}})"),
    # multi-byte characters INSIDE the matched node (added after the seeded change C13-end-column-byte-width)
    "string_mb": ("'\u00e9\u2192\U0001F600'", None),
    "call_mb": ("f('\u017c\u00f3\u0142\u0107', x)", "f({{...*}})"),
    "assign_mb": ("k = '\u00e9' + z\u00e9", "k = {{v}}"),
    "name_mb": ("\u00e9t\u00e9", None),
    "multiline_mb": ("(aa +\n    '\u00e9\u00e9' + bb)", None),
    "def_mb": ("def fn(a):\n    return '\u2192' + a", None),
    # several occurrences at different depths, the first one in source order NOT the shallowest (added after the seeded
    # change C13-match-via-search: the search order of the tree walk is not source order); third element = the pattern
    "name_deep_first": ("zz.bar(zz)", None, "zz"),
    "name_in_target_and_value": ("zz.y = g(zz)", None, "zz"),
    "name_binop_repeat": ("(zz + 1) * zz", None, "zz"),
    "call_nested_same": ("f(f(x), f(1))", "f({{...*}})", "f({{...*}})"),
    "call_of_call": ("g(h(zz))(zz)", "{{c}}(zz)", "zz"),
    "subscript_chain": ("zz[zz[0]]", "zz[{{i}}]", "zz"),
    "stmt_repeated": ("k = f(x); k = f(x)", "k = {{v}}", "k = f(x)"),
    "lambda_nested": ("lambda a: (lambda a: a + 1)", "lambda {{a}}: {{b}}", "a"),
    # decorator spellings
    "decorated_space": ("@ dec\ndef fn(a):\n    return a", None),
    "decorated_paren": ("@(dec)\ndef fn(a):\n    return a", None),
    "decorated_call_multiline": ("@dec(\n    1,\n)\ndef fn(a):\n    return a", None),
    "decorated_async": ("@dec\nasync def fn(a):\n    return a", None),
    "class_oneline_comment_at": ("class Cl: pass  # @", None),
}


def _indent(code, n):
    return "\n".join((" " * n + ln if ln else ln) for ln in code.split("\n"))


def layouts(code, block):
    yield "plain", code + "\n"
    yield "no_trailing_newline", code
    yield "blank_lines_before", "\n\n\n" + code + "\n"
    yield "trailing_blanks", code.replace("\n", "  \n") + "   \n"
    yield "indented_in_if", "if q:\n" + _indent(code, 4) + "\n"
    yield "indented_in_def2", "def o():\n    if q:\n" + _indent(code, 8) + "\n"
    yield "crlf", (code + "\n").replace("\n", "\r\n")
    yield "cr", (code + "\n").replace("\n", "\r")
    yield "comment_multibyte_line_before", "# \u00e9 comment \u2192\n" + code + "\n"
    yield "multibyte_line_before", "s = '\u00e9\u2192\U0001F600'\n" + code + "\n"
    yield "formfeed_in_literal_before", "s = 'a\x0cb'\n" + code + "\n"
    yield "x1c_in_literal_before", "s = 'a\x1cb\x1dc\x1ed'\n" + code + "\n"
    yield "x85_in_literal_before", "s = 'a\x85b'\n" + code + "\n"
    yield "ls_in_literal_before", "s = 'a\u2028b\u2029c'\n" + code + "\n"
    yield "vt_in_comment_before", "# a\x0bb\n" + code + "\n"
    yield "formfeed_line_between", "q = 0\n\x0c\n" + code + "\n"
    yield "ls_in_comment_before", "# a\u2028b\n" + code + "\n"
    yield "tab_in_comment", "q = 0  #\tc\n" + code + "\n"
    if not block:
        yield "after_semicolon", "q = 0; " + code + "\n"
        yield "multibyte_string_same_line", "s = '\u00e9'; " + code + "\n"
        yield "emoji_string_same_line", "s = '\U0001F600\u2192'; " + code + "\n"
        yield "multibyte_ident_same_line", "\u00e9t\u00e9 = 1; " + code + "\n"
        yield "before_semicolon_multibyte_after", code + "; s = '\u00e9'\n"
        yield "formfeed_in_literal_same_line", "s = 'a\x0cb'; " + code + "\n"


def positions(src_layout, lname):
    nl = "\r\n" if lname == "crlf" else ("\r" if lname == "cr" else "\n")
    tail = "" if src_layout.endswith(("\n", "\r")) else nl
    yield "only", src_layout
    yield "first", src_layout + tail + "after_stmt = 0" + nl
    yield "last", "before_stmt = 0" + nl + src_layout
    yield "middle", "before_stmt = 0" + nl + src_layout + tail + "after_stmt = 0" + nl


def units(tier):
    for kind in KINDS:
        code, wpat = KINDS[kind][:2]
        block = "\n" in code and kind != "paren_multiline"
        for lname, _ in layouts(code, block):
            yield {"kind": kind, "layout": lname}


# ------------------------------------------------------------------------------------------------
# reference geometry


def lines_py(src):
    return [m for m in re.findall(r"[^\r\n]*(?:\r\n|\n|\r)|[^\r\n]+$", src)]


def ref_span(node, src):
    ls = lines_py(src)
    starts, pos = [], 0
    for ln in ls:
        starts.append(pos)
        pos += len(ln)

    def off(lineno, col):
        line = ls[lineno - 1]
        return starts[lineno - 1] + len(line.encode("utf-8")[:col].decode("utf-8"))

    start = off(node.lineno, node.col_offset)
    decs = getattr(node, "decorator_list", None)
    if decs:
        d0 = min(decs, key=lambda d: (d.lineno, d.col_offset))
        start = src.rfind("@", 0, off(d0.lineno, d0.col_offset))  # '@ dec', '@(dec)': the '@' need not be adjacent
    return start, off(node.end_lineno, node.end_col_offset)


def ref_linecol(src, start):
    pre = src[:start]
    ls = lines_py(pre)
    complete = [ln for ln in ls if ln.endswith(("\n", "\r"))]
    return len(complete) + 1, len(pre) - sum(len(ln) for ln in complete)


def check_case(kind, lname, pname, pat_kind):
    from pyrefact import pattern_matching as pm

    code, wpat = KINDS[kind][:2]
    block = "\n" in code and kind != "paren_multiline"
    base = dict(layouts(code, block))[lname]
    src = dict(positions(base, lname))[pname]
    pat = (KINDS[kind][2] if len(KINDS[kind]) > 2 else code) if pat_kind == "own" else wpat
    desc = {"kind": kind, "layout": lname, "position": pname, "pattern": pat_kind}
    try:
        tree = ast.parse(src)
    except SyntaxError:
        return [], "layout_invalid"
    out = []
    V = lambda k, what: out.append(violation("pattern_matching", k, "%s/%s/%s/%s: %s" % (kind, lname, pname, pat_kind, what), desc,
                                              key=key_of(desc)))
    try:
        ms = list(pm.finditer(pat, src))
    except Exception as e:  # noqa: BLE001
        V("finditer_raised:" + type(e).__name__, str(e)[:80])
        return out, "raised"
    if not ms:
        V("no_match", "the node's own text / wildcard pattern was not found in %r" % src[:60])
        return out, "nomatch"
    for m in ms:
        root = m.groups[0]
        if not (0 <= m.start <= m.end <= len(src)):
            V("span_outside_source", "%s" % (m.span,))
            break
        if m.string != src[m.start : m.end]:
            V("string_is_not_slice", "%r" % m.string[:40])
            break
        if hasattr(root, "lineno"):
            rs, re_ = ref_span(root, src)
            if (m.start, m.end) != (rs, re_):
                V("span_is_not_node_text", "span %s text %r, node text %r" % (tuple(m.span), src[m.start : m.end][:40], src[rs:re_][:40]))
                break
        el, ec = ref_linecol(src, m.start)
        if (m.lineno, m.col_offset) != (el, ec):
            V("line_col_wrong", "reported %s:%s, span start is at %s:%s" % (m.lineno, m.col_offset, el, ec))
            break
    if out:
        return out, "match"
    # API coherence
    try:
        if pm.findall(pat, src) != [m.string for m in ms]:
            V("findall_differs", "")
        s = pm.search(pat, src)
        if s is None or s.span != ms[0].span:
            V("search_is_not_first", "")
        body = tree.body
        first_start = min(ref_span(n, src)[0] for n in body)
        last_end = max(ref_span(n, src)[1] for n in body)
        mm = pm.match(pat, src)
        want_match = any(m.start == first_start for m in ms)
        if (mm is not None) != want_match or (mm is not None and mm.start != first_start):
            V("match_incoherent", "match() %s although a match %s at the first statement" % (
                "succeeded" if mm else "failed", "starts" if want_match else "does not start"))
        fm = pm.fullmatch(pat, src)
        want_full = any((m.start, m.end) == (first_start, last_end) for m in ms)
        if (fm is not None) != want_full:
            V("fullmatch_incoherent", "fullmatch() %s, a match spanning the body %s" % (
                "succeeded" if fm else "failed", "exists" if want_full else "does not exist"))
        # command line finder
        path = os.path.join(os.getcwd(), "c13_case.py")
        with open(path, "w", encoding="utf-8", newline="") as f:
            f.write(src)
        with open(path, encoding=None) as f:
            try:
                as_read = f.read()
            except UnicodeDecodeError:
                as_read = None
        if as_read is not None:
            buf = io.StringIO()
            with contextlib.redirect_stdout(buf):
                pm.main(["find", pat, path])
            printed = buf.getvalue().splitlines()
            ms2 = list(pm.finditer(pat, as_read))
            want_lines = []
            for m in ms2:
                el, ec = ref_linecol(as_read, m.start)
                first_line = lines_py(as_read[m.start : m.end])[0].rstrip("\r\n") if m.end > m.start else ""
                want_lines.append("%s:%d:%d: %s" % (path, el, ec, first_line))
            norm = lambda xs: [x for x in xs if x.strip()]
            if norm("\n".join(want_lines).splitlines()) != norm(printed):
                V("cli_differs", "printed %r want %r" % (printed[:2], want_lines[:2]))
        os.remove(path)
    except Exception as e:  # noqa: BLE001
        V("api_raised:" + type(e).__name__, str(e)[:80])
    return out, "match"


def run_unit(unit):
    res = {"n": 0, "nontrivial": [], "viol": [], "stats": {}, "samples": []}
    kind, lname = unit["kind"], unit["layout"]
    code, wpat = KINDS[kind][:2]
    for pname in ("only", "first", "last", "middle"):
        for pat_kind in ("own", "wild"):
            if pat_kind == "wild" and not wpat:
                continue
            v, status = check_case(kind, lname, pname, pat_kind)
            if status == "layout_invalid":
                res["stats"]["layout_invalid"] = res["stats"].get("layout_invalid", 0) + 1
                continue
            res["n"] += 1
            if status == "match":
                res["nontrivial"].append(key_of([kind, lname, pname, pat_kind]))
                if not v and not res["samples"]:
                    res["samples"].append({"kind": kind, "layout": lname, "position": pname, "pattern": pat_kind})
            res["viol"].extend(v)
    return res


def replay(desc):
    return check_case(desc["kind"], desc["layout"], desc["position"], desc["pattern"])[0]


def explain(desc):
    code, wpat = KINDS[desc["kind"]][:2]
    block = "\n" in code and desc["kind"] != "paren_multiline"
    base = dict(layouts(code, block))[desc["layout"]]
    return "source: %r\npattern: %r" % (dict(positions(base, desc["layout"]))[desc["position"]], (KINDS[desc["kind"]][2] if len(KINDS[desc["kind"]]) > 2 else code) if desc["pattern"] == "own" else wpat)
