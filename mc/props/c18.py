"""C18 - import normalisation keeps every referenced name bound to the same object."""
from __future__ import annotations

import ast
import builtins
import importlib
import os
import shutil
import sys

from mc import boot, progs
from mc.kernel import key_of, violation

ID = "C18"
LEVEL = "exploration"
RULE = (
    "package trees from a layout grammar: base module vq_m1 defining function / class / variable with __all__ absent, "
    "partial or full; re-exporter vq_m2 in {from-import, from-import-as, star import, plain import, re-export then own "
    "definition of the same name, own definition then import}; optional third hop vq_m3; package vq_p with __init__ "
    "re-exporting vq_p.vq_sub (13 layouts) x client forms: from X import n, import-as, star import, import X, import "
    "X.sub, duplicate / partially duplicate / stacked / unsorted imports, imports inside a function / if / try, unused "
    "imports, dotted stdlib modules, star imports from the stdlib, names the tool would guess (Path, Sequence, math, os) "
    "undefined-in-dead-code and locally defined (49 clients). drivers: fix_starred_imports, fix_reimported_names, "
    "remove_unused_imports, fix_duplicate_imports, sort_imports, move_imports_to_toplevel, add_missing_imports alone, and "
    "format_code (default, keep_imports, safe), with cwd = the tree. oracle: the client hands every referenced object to "
    "a sink; original and rewritten client are executed in the same interpreter (scrubbed sys.modules before, modules "
    "kept in between): the rewritten client must not raise and every object must be identical (is; == for immutable "
    "values). non-trivial = the driver changed the client"
)
RULE += (" plus 23 stdlib clients on local un-aliased dotted imports whose root name is bound otherwise (parameter, global, def, class), dotted imports used through "
         "their root only, and two imports binding one name.")
ASSUMPTIONS = [
    "names that did not resolve before carry no obligation; clients whose original does not run are dropped (counted)",
    "rules that emit a reference to a not-yet-imported module in isolation are C02's subject; here only import statements matter",
]

M1 = "def f():\n    return 1\nclass C:\n    pass\nV = (3, 4)\n"
LAYOUTS = {
    "direct": {"vq_m1.py": M1},
    "all_partial": {"vq_m1.py": M1 + "__all__ = ['f', 'C']\n"},
    "reexport_from": {"vq_m1.py": M1, "vq_m2.py": "from vq_m1 import f, C, V\n"},
    "reexport_as": {"vq_m1.py": M1, "vq_m2.py": "from vq_m1 import f as g\nfrom vq_m1 import C, V\n"},
    "reexport_star": {"vq_m1.py": M1, "vq_m2.py": "from vq_m1 import *\ndef own():\n    return 2\n"},
    "reexport_star_all": {"vq_m1.py": M1 + "__all__ = ['f', 'C']\n", "vq_m2.py": "from vq_m1 import *\nV = 'own V'\n"},
    "reexport_module": {"vq_m1.py": M1, "vq_m2.py": "import vq_m1\nf = vq_m1.f\nC = vq_m1.C\nV = vq_m1.V\n"},
    "shadow_after_import": {"vq_m1.py": M1, "vq_m2.py": "from vq_m1 import f, C, V\ndef f():\n    return 'shadow'\n"},
    "three_hops": {"vq_m1.py": M1, "vq_m2.py": "from vq_m1 import f, C, V\n", "vq_m3.py": "from vq_m2 import f, C\nfrom vq_m2 import V as W\n"},
    "own_then_star_all": {"vq_m1.py": M1 + "__all__ = ['f', 'C']\n", "vq_m2.py": "V = 'own V'\nfrom vq_m1 import *\n"},
    "alias_and_own": {"vq_m1.py": M1, "vq_m2.py": "def f():\n    return 'own f'\nfrom vq_m1 import f as g\nfrom vq_m1 import C, V\n"},
    "reexport_module_alias": {"vq_m1.py": M1, "vq_m2.py": "import vq_m1 as vq_h\nimport json as vq_js\nimport vq_m1\nfrom vq_m1 import f, C, V\n"},
    # a module that binds a name privately and hides it with __all__, alone and behind a star re-export (added after the
    # seeded change C18-star-all-not-forwarded)
    "private_behind_all": {"vq_m1.py": M1, "vq_m2.py": "def draw():\n    return 'd'\ndef f():\n    return 'private f'\n__all__ = ['draw']\n",
                           "vq_m3.py": "from vq_m2 import *\n"},
    "package": {"vq_p/__init__.py": "from vq_p.vq_sub import f, C\nfrom vq_p import vq_sub\n", "vq_p/vq_sub.py": M1},
}

# client templates: {M} = the module the client imports from; sink(...) receives every referenced object
CLIENTS = {
    "from_one": "from {M} import f\nvq_sink(f)\n",
    "from_three": "from {M} import f, C, V\nvq_sink(f, C, V)\n",
    "from_as": "from {M} import f as k\nvq_sink(k)\n",
    "from_as_same": "from {M} import f as f\nvq_sink(f)\n",
    "star": "from {M} import *\nvq_sink(f, C)\n",
    "star_and_explicit": "from {M} import *\nfrom {M} import f\nvq_sink(f, C)\n",
    "import_module": "import {M}\nvq_sink({M}.f, {M}.C, {M})\n",
    "import_module_as": "import {M} as mod\nvq_sink(mod.f, mod)\n",
    "duplicate_from": "from {M} import f\nfrom {M} import f\nvq_sink(f)\n",
    "partial_duplicate": "from {M} import f\nfrom {M} import f, C\nvq_sink(f, C)\n",
    "split_from": "from {M} import f\nfrom {M} import C\nvq_sink(f, C)\n",
    "stacked": "import os, {M}, sys\nvq_sink(os, {M}, sys)\n",
    "unsorted": "import sys\nfrom {M} import f\nimport os\nimport json\nvq_sink(sys, f, os, json)\n",
    "in_function": "def g():\n    from {M} import f\n    return f\nvq_sink(g())\n",
    "in_function_and_top": "from {M} import C\ndef g():\n    from {M} import f\n    return f\nvq_sink(g(), C)\n",
    "in_if": "import sys\nif sys.version_info >= (3, 0):\n    from {M} import f\nelse:\n    f = None\nvq_sink(f)\n",
    "in_try": "try:\n    from {M} import f\nexcept ImportError:\n    f = None\nvq_sink(f)\n",
    "in_try_missing": "try:\n    from {M} import nonexistent_name\nexcept ImportError:\n    nonexistent_name = 'fallback'\nvq_sink(nonexistent_name)\n",
    "unused_and_used": "from {M} import f, C\nimport os\nvq_sink(f)\n",
    "unused_only_module": "import {M}\nimport json\nvq_sink(json)\n",
    "rebinding": "from {M} import f\nf = 'rebound'\nvq_sink(f)\n",
    "used_then_rebound": "from {M} import f\nvq_sink(f)\nf = 'rebound'\nvq_sink(f)\n",
    "import_order_matters": "from {M} import f\nfrom os import sep as f\nvq_sink(f)\n",
    "import_order_matters2": "from os import sep as f\nfrom {M} import f\nvq_sink(f)\n",
    "attribute_chain": "import {M}\nx = {M}.C\nvq_sink(x, {M}.V)\n",
    "from_in_class": "class K:\n    from {M} import f\nvq_sink(K.f)\n",
    "from_module_alias": "from {M} import vq_h\nvq_sink(vq_h, vq_h.f)\n",
    "from_module_alias_as": "from {M} import vq_h as hh\nvq_sink(hh, hh.C)\n",
    "from_module_plain": "from {M} import vq_m1\nvq_sink(vq_m1, vq_m1.f)\n",
    "from_stdlib_alias": "from {M} import vq_js\nvq_sink(vq_js, vq_js.dumps)\n",
    "from_module_alias_and_name": "from {M} import vq_h, f\nvq_sink(vq_h.f, f)\n",
    "star_after_star": "from vq_m1 import *\nfrom {M} import *\nvq_sink(f, C)\n",
    "star_before_star": "from {M} import *\nfrom vq_m1 import *\nvq_sink(f, C)\n",
    "star_after_star_three": "from vq_m1 import *\nfrom {M} import *\nfrom json import *\nvq_sink(f, C, dumps)\n",
    "in_function_shadows_module_name": "f = 'client f'\ndef g():\n    from {M} import f\n    return f\nvq_sink(g(), f)\n",
    "in_function_shadows_module_var": "C = 'client C'\ndef g():\n    from {M} import C\n    return C\nvq_sink(g(), C)\n",
    "two_modules_same_name": "from {M} import f\nfrom vq_m1 import f as f1\nvq_sink(f, f1)\n",
}
STDLIB_CLIENTS = {
    "dotted_stdlib": "import os.path\nvq_sink(os.path.join, os.sep)\n",
    "dotted_stdlib_as": "import os.path as osp\nvq_sink(osp.join)\n",
    "from_dotted": "from os.path import join, basename\nvq_sink(join, basename)\n",
    "star_stdlib": "from os.path import *\nvq_sink(join, basename)\n",
    "star_math": "from math import *\nvq_sink(floor, pi)\n",
    "reimported_stdlib": "from pathlib import os\nvq_sink(os.sep)\n",
    "collections_abc": "from collections import abc\nimport collections.abc\nvq_sink(abc.Sequence, collections.abc.Mapping)\n",
    "guessed_dead": "def dead():\n    return Path('.'), Sequence, math.pi, os.sep\nvq_sink(dead.__name__)\n",
    "guessed_local_path": "class Path:\n    pass\ndef g():\n    return Path()\nvq_sink(type(g()))\n",
    "guessed_local_math": "math = {'pi': 3}\nvq_sink(math['pi'])\n",
    "guessed_param": "def g(os, Sequence):\n    return os, Sequence\nvq_sink(*g(1, 2))\n",
    "future_import": "from __future__ import annotations\nimport os\nvq_sink(os.sep)\n",
    "import_alias_shadow": "import os as sys\nvq_sink(sys.sep)\n",
    "typing_names": "from typing import List, Dict, Optional\nvq_sink(List, Optional)\n",
    "late_import": "vq_sink(1)\nimport os\nvq_sink(os.sep)\n",
    "import_in_loop": "r = []\nfor i in range(2):\n    import json\n    r.append(json)\nvq_sink(*r)\n",
    "conditional_alias": "try:\n    import json as serializer\nexcept ImportError:\n    import pickle as serializer\nvq_sink(serializer)\n",
    # un-aliased dotted imports bind the ROOT name: local imports whose root name is bound otherwise in the module (family
    # added after the seeded change C18-dotted-import-root-name-guard), for movable (os.path, urllib.parse,
    # logging.handlers) and non-movable (json.decoder) modules, plus controls without a clash
    "local_dotted_param_default": "def g(os=None):\n    if os is None:\n        import os.path\n    return os.path.join('a', 'b')\nvq_sink(g())\n",
    "local_dotted_param_used": "import types\ndef g(os):\n    if os is None:\n        import os.path\n    return os.path.sep\nvq_sink(g(types.SimpleNamespace(path=types.SimpleNamespace(sep='|'))), g(None))\n",
    "local_dotted_shadowed_global": "os = 'client os'\ndef g():\n    import os.path\n    return os.path.sep\nvq_sink(g(), os)\n",
    "local_dotted_def_named_root": "def urllib():\n    return 'fn'\ndef g():\n    import urllib.parse\n    return urllib.parse.quote\nvq_sink(g(), urllib())\n",
    "local_dotted_class_named_root": "class logging:\n    INFO = 'mine'\ndef g():\n    import logging.handlers\n    return logging.handlers\nvq_sink(g(), logging.INFO)\n",
    "local_dotted_no_clash": "def g():\n    import os.path\n    return os.path.join\nvq_sink(g())\n",
    "local_dotted_as_with_clash": "os = 1\ndef g():\n    import os.path as osp\n    return osp.sep\nvq_sink(g(), os)\n",
    "local_dotted_unmovable": "json = 'mine'\ndef g():\n    import json.decoder\n    return json.decoder.JSONDecoder\nvq_sink(g(), json)\n",
    "local_dotted_also_toplevel": "import xml.dom\nxml_doc = xml.dom\ndef g(xml=None):\n    if xml is None:\n        import xml.dom\n    return xml.dom\nvq_sink(g(), xml_doc)\n",
    "local_from_shadowed_global": "join = 'x'\ndef g():\n    from os.path import join\n    return join\nvq_sink(g(), join)\n",
    "local_plain_param_same_name": "def g(json=None):\n    if json is None:\n        import json\n    return json\nvq_sink(g())\n",
    "local_plain_in_nested_function": "sys = 'client sys'\ndef outer():\n    def inner():\n        import sys\n        return sys\n    return inner()\nvq_sink(outer(), sys)\n",
    "local_import_in_method": "os = 0\nclass K:\n    def m(self):\n        import os\n        return os\nvq_sink(K().m(), os)\n",
    "local_import_then_global_stmt": "def g():\n    global json\n    import json\n    return json\nvq_sink(g(), json)\n",
    # dotted import used through its root name only
    "dotted_only_root_used": "import logging.handlers\nvq_sink(logging.INFO, logging)\n",
    "dotted_root_and_sub_used": "import os.path\nimport os\nvq_sink(os.sep, os.path)\n",
    "dotted_two_subs": "import xml.dom\nimport xml.sax\nvq_sink(xml.dom, xml.sax, xml)\n",
    # two imports binding the same name: the later one wins
    "same_asname_two_modules": "import json as m\nimport pickle as m\nvq_sink(m)\n",
    "same_alias_in_one_from": "from os.path import join as x, basename as x\nvq_sink(x)\n",
    "same_alias_two_froms": "from os.path import join as x\nfrom os.path import basename as x\nvq_sink(x)\n",
    "same_name_two_modules": "from posixpath import join\nfrom ntpath import join\nvq_sink(join)\n",
    "module_import_below_rebinding": "def helper():\n    return 1\njson = 'a string'\nvq_sink(json)\nimport json\nvq_sink(json, helper())\n",
}
STDLIB_PART = 6
DRIVERS = ["tracing.fix_starred_imports", "tracing.fix_reimported_names", "fixes.remove_unused_imports", "fixes.fix_duplicate_imports",
           "fixes.sort_imports", "fixes.move_imports_to_toplevel", "fixes.add_missing_imports",
           "format_code:default", "format_code:keep_imports", "format_code:safe"]


def worker_init():
    progs.worker_setup()


def entry_modules(layout):
    mods = [os.path.splitext(rel)[0].replace("/", ".").replace(".__init__", "") for rel in LAYOUTS[layout]]
    return sorted(set(mods), reverse=True)


def units(tier):
    for layout in LAYOUTS:
        for mod in entry_modules(layout):
            yield {"layout": layout, "mod": mod}
    for part in range(0, len(STDLIB_CLIENTS), STDLIB_PART):
        yield {"layout": "direct", "mod": None, "part": part}


def materialise(layout):
    d = os.path.join(os.getcwd(), "c18_tree")
    if os.path.exists(d):
        shutil.rmtree(d)
    os.makedirs(d)
    for rel, src in LAYOUTS[layout].items():
        p = os.path.join(d, rel)
        os.makedirs(os.path.dirname(p), exist_ok=True)
        with open(p, "w") as f:
            f.write(src)
    return d


def _scrub():
    for m in [m for m in sys.modules if m.startswith("vq_")]:
        del sys.modules[m]
    importlib.invalidate_caches()
    sys.path_importer_cache.clear()


def _run(src, d):
    got = []
    builtins.vq_sink = lambda *a: got.extend(a)
    sys.path.insert(0, d)
    try:
        status = progs.run_prog(src)[0]
    finally:
        sys.path.remove(d)
        del builtins.vq_sink
    return status, got


def _same(a, b):
    if a is b:
        return True
    if isinstance(a, (int, float, str, bytes, tuple, frozenset, type(None))) and type(a) is type(b):
        return a == b
    return False


def check(layout, mod, cname, driver):
    d = materialise(layout)
    src = (CLIENTS.get(cname) or STDLIB_CLIENTS[cname]).replace("{M}", mod or "vq_m1")
    desc = {"layout": layout, "mod": mod, "client": cname, "driver": driver}
    cwd = os.getcwd()
    os.chdir(d)
    try:
        _scrub()
        s0, objs0 = _run(src, d)
        if s0 != "ok":
            return [], "not_admitted"
        boot.clear_caches()
        try:
            if driver.startswith("format_code:"):
                c = driver.split(":")[1]
                out = progs.format_code(src, {"keep_imports": c == "keep_imports", "safe": c == "safe"})
            else:
                out = progs.call_rule(driver, src)
        except BaseException:  # noqa: BLE001
            return [], "blocked"
        if out == src:
            return [], "unchanged"
        s1, objs1 = _run(out, d)  # modules of the first run stay loaded: identities are comparable
        v = []
        if s1 != "ok":
            v.append(violation(driver.split(":")[0], "rewritten_client_fails:" + s1,
                               "layout %s via %s, client %s through %s: %r -> %r" % (layout, mod, cname, driver, src, out), desc))
        elif len(objs0) != len(objs1) or not all(_same(a, b) for a, b in zip(objs0, objs1)):
            which = [i for i, (a, b) in enumerate(zip(objs0, objs1)) if not _same(a, b)]
            v.append(violation(driver.split(":")[0], "name_bound_to_other_object",
                               "layout %s via %s, client %s through %s: referenced object #%s differs: %r -> %r" % (layout, mod, cname, driver, which, src, out), desc))
        return v, "changed"
    finally:
        os.chdir(cwd)
        _scrub()


def run_unit(unit):
    res = {"n": 0, "nontrivial": [], "viol": [], "stats": {}, "samples": []}
    st = res["stats"]
    clients = CLIENTS if unit["mod"] else list(STDLIB_CLIENTS)[unit["part"] : unit["part"] + STDLIB_PART]
    for cname in clients:
        for driver in DRIVERS:
            v, status = check(unit["layout"], unit["mod"], cname, driver)
            if status == "not_admitted":
                st["client_not_admitted"] = st.get("client_not_admitted", 0) + 1
                break
            res["n"] += 1
            st[status] = st.get(status, 0) + 1
            if status == "changed":
                res["nontrivial"].append(key_of([unit, cname, driver]))
                if not v and not res["samples"]:
                    res["samples"].append({"layout": unit["layout"], "module": unit["mod"], "client": cname, "driver": driver})
            res["viol"].extend(v)
    return res


def replay(desc):
    progs.worker_setup()
    return check(desc["layout"], desc["mod"], desc["client"], desc["driver"])[0]
