"""C19 - renaming is consistent and capture-free (identifier pool x binding forms x scopes, two bindings each)."""
from __future__ import annotations

import itertools
import os
import textwrap

from mc import boot, progs
from mc.kernel import key_of, violation

ID = "C19"
LEVEL = "exploration"
RULE = (
    "programs with two bindings: name pairs = every ordered pair of the variant family {myVar, my_var, MY_VAR, MyVar, "
    "_my_var, myvar} plus adversarial pairs (builtins list/id, generated names a/b, var_1, i/j, "
    "pyrefact_overused_constant_0, '_', d_x/d, name equal to the would-be new name) x binding forms (assignment, "
    "augmented, annotated, tuple unpacking, for, with-as, import-as, def, class, parameter, keyword-only / positional-only / "
    "*args / **kwargs / lambda parameter, except-as, keyword use, global, nonlocal, comprehension target, walrus, self.attr, "
    "class attribute): first binding any of the 23 forms, second binding one of 8 core forms (thorough: all 23); same-name "
    "pairs (shadowing) included x scope (module, function; thorough: method, nested function); "
    "each binding gets a distinct value and is read and printed after both bindings. drivers: the nine renaming rules "
    "alone, and format_code (quick: module scope and both bindings of a core form). oracle: original and result executed, identical output (a captured "
    "or half-renamed binding changes a printed value or raises NameError / UnboundLocalError / AttributeError). "
    "non-trivial = the driver changed the text"
)
ASSUMPTIONS = [
    "every binding is observed on every path, so a wrong renaming is visible to the execution oracle",
    "programs whose original does not run (e.g. rebinding a builtin the prelude needs) are dropped and counted",
]

FAMILY = ["myVar", "my_var", "MY_VAR", "MyVar", "_my_var", "myvar"]
SAME_NAME = [("myVar", "myVar"), ("my_var", "my_var"), ("MY_VAR", "MY_VAR"), ("limit", "limit"), ("a", "a"), ("_x", "_x")]
EXTRA_PAIRS = SAME_NAME + [("list", "myVar"), ("myVar", "list"), ("id", "my_id"), ("a", "b"), ("b", "a"), ("var_1", "var_2"), ("i", "j"),
               ("pyrefact_overused_constant_0", "myVar"), ("_", "myVar"), ("myVar", "_"), ("d_x", "d"), ("d", "d_x"),
               ("someName", "some_name"), ("SOME_NAME", "some_name"), ("x", "X"), ("max", "maxValue"), ("self", "myVar"),
               ("cls", "my_var"), ("k", "key"), ("value", "val_ue")]
RULES = ["fixes.align_variable_names_with_convention", "fixes.undefine_unused_variables", "fixes.remove_duplicate_functions",
         "object_oriented.move_staticmethod_static_scope", "fixes.replace_nested_loops_with_set_list_comp",
         "fixes.implicit_dict_keys_values_items", "performance.replace_subscript_looping", "abstractions.simplify_if_control_flow",
         "abstractions.overused_constant", "object_oriented.remove_unused_self_cls", "fixes.delete_unused_functions_and_classes"]

# form -> (setup template, read expression); {n} name, {v} value, {k} unique suffix
FORMS = {
    "assign": ("{n} = {v}\n", "{n}"),
    "augassign": ("{n} = 0\n{n} += {v}\n", "{n}"),
    "annassign": ("{n}: int = {v}\n", "{n}"),
    "tuple": ("{n}, other_{k} = {v}, 0\n", "{n}"),
    "for": ("for {n} in ({v},):\n    pass\n", "{n}"),
    "with": ("with cm({v}) as {n}:\n    pass\n", "{n}"),
    "import_as": ("import math as {n}\n", "{n}.floor({v}.5)"),
    "def": ("def {n}():\n    return {v}\n", "{n}()"),
    "class": ("class {n}:\n    val = {v}\n", "{n}.val"),
    "param": ("def fn_{k}({n}):\n    return {n} + 1\n", "fn_{k}({v})"),
    "kwarg": ("def fk_{k}({n}=0):\n    return {n} + 2\n", "fk_{k}({n}={v})"),
    "kwonly": ("def fo_{k}(*, {n}=0):\n    return {n} + 3\n", "fo_{k}({n}={v}), fo_{k}()"),
    "posonly": ("def fq_{k}({n}, /):\n    return {n} + 4\n", "fq_{k}({v})"),
    "vararg": ("def fv_{k}(*{n}):\n    return {n}\n", "fv_{k}({v}, 0)"),
    "starkwarg": ("def fw_{k}(**{n}):\n    return sorted({n})\n", "fw_{k}(zz={v})"),
    "lambda_param": ("fl_{k} = lambda {n}: {n} + 5\n", "fl_{k}({v})"),
    "except_as": ("try:\n    raise ValueError({v})\nexcept ValueError as {n}:\n    saved_{k} = {n}.args\n", "saved_{k}"),
    "global": ("def setg_{k}():\n    global {n}\n    {n} = {v}\nsetg_{k}()\n", "{n}"),
    "nonlocal": ("def outer_{k}():\n    {n} = 0\n    def inner():\n        nonlocal {n}\n        {n} = {v}\n    inner()\n    return {n}\n", "outer_{k}()"),
    "comp": ("r_{k} = [{n} * 2 for {n} in ({v},)]\n", "r_{k}"),
    "walrus": ("if ({n} := {v}):\n    pass\n", "{n}"),
    "selfattr": ("class C_{k}:\n    def __init__(self):\n        self.{n} = {v}\n    def get(self):\n        return self.{n}\n", "C_{k}().get(), C_{k}().{n}"),
    "clsattr": ("class D_{k}:\n    {n} = {v}\n", "D_{k}.{n}, D_{k}().{n}"),
}
CORE_FORMS = ["assign", "for", "def", "param", "clsattr", "selfattr", "kwonly", "lambda_param"]
NO_GLOBAL_IN = ("function", "method", "nested")

PRE = "import contextlib\n@contextlib.contextmanager\ndef cm(x):\n    yield x\n"


def name_pairs():
    return [(a, b) for a, b in itertools.permutations(FAMILY, 2)] + EXTRA_PAIRS


def build(n1, f1, n2, f2, scope):
    s1, r1 = FORMS[f1]
    s2, r2 = FORMS[f2]
    body = s1.format(n=n1, v=11, k="p") + "print(%s)\n" % r1.format(n=n1, v=11, k="p")
    body += s2.format(n=n2, v=22, k="q") + "print(%s)\n" % r2.format(n=n2, v=22, k="q")
    body += "print(%s)\n" % r1.format(n=n1, v=11, k="p") if f1 not in ("global",) or scope == "module" else ""
    ind = lambda s, k: textwrap.indent(s, " " * k)
    if scope == "module":
        return PRE + body
    if scope == "function":
        return PRE + "def scope_fn():\n" + ind(body, 4) + "    return 0\nscope_fn()\n"
    if scope == "method":
        return PRE + "class Scope:\n    def run(self):\n" + ind(body, 8) + "        return self\nScope().run()\n"
    if scope == "nested":
        return PRE + "def outer_scope():\n    def inner_scope():\n" + ind(body, 8) + "        return 0\n    return inner_scope()\nouter_scope()\n"
    raise ValueError(scope)


def units(tier):
    scopes = ["module", "function"] if tier == "quick" else ["module", "function", "method", "nested"]
    forms2 = CORE_FORMS if tier == "quick" else list(FORMS)
    for n1, n2 in name_pairs():
        for scope in scopes:
            yield {"n1": n1, "n2": n2, "scope": scope, "forms2": forms2}


def worker_init():
    progs.worker_setup()


def check(n1, f1, n2, f2, scope, with_fc, only=None):
    src = build(n1, f1, n2, f2, scope)
    orig = progs.run_prog(src)
    # deterministic programs only: printing a function object shows its address, which differs between two runs
    admitted = orig[0] == "ok" and " at 0x" not in orig[1] and progs.run_prog(src) == orig
    out, info = [], {"admitted": admitted, "nontrivial": []}
    if not admitted:
        return out, info
    entries = list(RULES) + (["format_code"] if with_fc else [])
    for entry in entries:
        if only and entry != only:
            continue
        desc = {"n1": n1, "f1": f1, "n2": n2, "f2": f2, "scope": scope, "entry": entry}
        boot.clear_caches()
        try:
            new = progs.format_code(src) if entry == "format_code" else progs.call_rule(entry, src)
        except BaseException:  # noqa: BLE001
            info["blocked"] = info.get("blocked", 0) + 1
            continue
        if new == src:
            continue
        k = key_of(desc)
        info["nontrivial"].append(k)
        c = progs.compare(orig, new)
        if c is not None:
            site = entry
            if entry == "format_code":
                site, _ = progs.culprit(src, {}, orig)
            out.append(violation(site, c[0], "%s(%s) + %s(%s) in %s scope via %s: %s" % (n1, f1, n2, f2, scope, entry, c[1]), desc, key=k))
    return out, info


def run_unit(unit):
    tier = os.environ.get("MC_TIER", "quick")
    res = {"n": 0, "nontrivial": [], "viol": [], "stats": {}, "samples": []}
    st = res["stats"]
    for f1 in FORMS:
        for f2 in unit["forms2"]:
            if unit["scope"] != "module" and "global" in (f1, f2):
                pass  # global inside a function binds a module name: still a legal program
            with_fc = tier == "thorough" or (unit["scope"] == "module" and f1 in CORE_FORMS)
            v, info = check(unit["n1"], f1, unit["n2"], f2, unit["scope"], with_fc=with_fc)
            if not info["admitted"]:
                st["program_not_admitted"] = st.get("program_not_admitted", 0) + 1
                continue
            res["n"] += 1
            res["nontrivial"].extend(info["nontrivial"])
            res["viol"].extend(v)
            if not res["samples"] and info["nontrivial"] and not v:
                res["samples"].append({"n1": unit["n1"], "f1": f1, "n2": unit["n2"], "f2": f2, "scope": unit["scope"]})
    return res


def replay(desc):
    progs.worker_setup()
    return check(desc["n1"], desc["f1"], desc["n2"], desc["f2"], desc["scope"], True, only=desc["entry"])[0]


def explain(desc):
    src = build(desc["n1"], desc["f1"], desc["n2"], desc["f2"], desc["scope"])
    boot.clear_caches()
    new = progs.format_code(src) if desc["entry"] == "format_code" else progs.call_rule(desc["entry"], src)
    return "--- original\n%s\n--- after %s\n%s\n--- outcomes %r -> %r" % (src, desc["entry"], new, progs.run_prog(src), progs.run_prog(new))
