"""C19 - renaming is consistent and capture-free (identifier pool x binding forms x scopes, two bindings each)."""
from __future__ import annotations

import itertools
import os
import textwrap

from mc import boot, progs
from mc.kernel import key_of, violation

ID = "C19"
LEVEL = "exploration"
RULE = (
    "programs with two bindings: name pairs = every ordered pair of the variant family {myVar, my_var, MY_VAR, MyVar, "
    "_my_var, myvar} plus adversarial pairs (builtins list/id, generated names a/b, var_1, i/j, "
    "pyrefact_overused_constant_0, '_', d_x/d, name equal to the would-be new name) x binding forms (assignment, "
    "augmented, annotated, tuple unpacking, for, with-as, import-as, def, class, parameter, keyword-only / positional-only / "
    "*args / **kwargs / lambda parameter, except-as, keyword use, global, nonlocal, comprehension target, walrus, self.attr, "
    "class attribute): first binding any of the 23 forms, second binding one of 8 core forms (thorough: all 23); same-name "
    "pairs (shadowing) included x scope (module, function; thorough: method, nested function); "
    "each binding gets a distinct value and is read and printed after both bindings; nested shadowing: a module-level binding (5 forms) and a "
    "function that binds the same name locally (14 forms) x 5 names; generated names: 5 overused literals (alone and in pairs) x 8 names the tool would generate, "
    "already bound in the input in 5 ways x module / function placement, plus a function the control-flow abstraction rewrites. drivers: the nine renaming rules "
    "alone, and format_code (quick: module scope and both bindings of a core form). oracle: original and result executed, identical output (a captured "
    "or half-renamed binding changes a printed value or raises NameError / UnboundLocalError / AttributeError). "
    "non-trivial = the driver changed the text"
)
ASSUMPTIONS = [
    "every binding is observed on every path, so a wrong renaming is visible to the execution oracle",
    "programs whose original does not run (e.g. rebinding a builtin the prelude needs) are dropped and counted",
]

FAMILY = ["myVar", "my_var", "MY_VAR", "MyVar", "_my_var", "myvar"]
SAME_NAME = [("myVar", "myVar"), ("my_var", "my_var"), ("MY_VAR", "MY_VAR"), ("limit", "limit"), ("a", "a"), ("_x", "_x")]
EXTRA_PAIRS = SAME_NAME + [("list", "myVar"), ("myVar", "list"), ("id", "my_id"), ("a", "b"), ("b", "a"), ("var_1", "var_2"), ("i", "j"),
               ("pyrefact_overused_constant_0", "myVar"), ("_", "myVar"), ("myVar", "_"), ("d_x", "d"), ("d", "d_x"),
               ("someName", "some_name"), ("SOME_NAME", "some_name"), ("x", "X"), ("max", "maxValue"), ("self", "myVar"),
               ("cls", "my_var"), ("k", "key"), ("value", "val_ue")]
RULES = ["fixes.align_variable_names_with_convention", "fixes.undefine_unused_variables", "fixes.remove_duplicate_functions",
         "object_oriented.move_staticmethod_static_scope", "fixes.replace_nested_loops_with_set_list_comp",
         "fixes.implicit_dict_keys_values_items", "performance.replace_subscript_looping", "abstractions.simplify_if_control_flow",
         "abstractions.overused_constant", "object_oriented.remove_unused_self_cls", "fixes.delete_unused_functions_and_classes"]

# form -> (setup template, read expression); {n} name, {v} value, {k} unique suffix
FORMS = {
    "assign": ("{n} = {v}\n", "{n}"),
    "augassign": ("{n} = 0\n{n} += {v}\n", "{n}"),
    "annassign": ("{n}: int = {v}\n", "{n}"),
    "tuple": ("{n}, other_{k} = {v}, 0\n", "{n}"),
    "for": ("for {n} in ({v},):\n    pass\n", "{n}"),
    "with": ("with cm({v}) as {n}:\n    pass\n", "{n}"),
    "import_as": ("import math as {n}\n", "{n}.floor({v}.5)"),
    "def": ("def {n}():\n    return {v}\n", "{n}()"),
    "class": ("class {n}:\n    val = {v}\n", "{n}.val"),
    "param": ("def fn_{k}({n}):\n    return {n} + 1\n", "fn_{k}({v})"),
    "kwarg": ("def fk_{k}({n}=0):\n    return {n} + 2\n", "fk_{k}({n}={v})"),
    "kwonly": ("def fo_{k}(*, {n}=0):\n    return {n} + 3\n", "fo_{k}({n}={v}), fo_{k}()"),
    "posonly": ("def fq_{k}({n}, /):\n    return {n} + 4\n", "fq_{k}({v})"),
    "vararg": ("def fv_{k}(*{n}):\n    return {n}\n", "fv_{k}({v}, 0)"),
    "starkwarg": ("def fw_{k}(**{n}):\n    return sorted({n})\n", "fw_{k}(zz={v})"),
    "lambda_param": ("fl_{k} = lambda {n}: {n} + 5\n", "fl_{k}({v})"),
    "except_as": ("try:\n    raise ValueError({v})\nexcept ValueError as {n}:\n    saved_{k} = {n}.args\n", "saved_{k}"),
    "global": ("def setg_{k}():\n    global {n}\n    {n} = {v}\nsetg_{k}()\n", "{n}"),
    "nonlocal": ("def outer_{k}():\n    {n} = 0\n    def inner():\n        nonlocal {n}\n        {n} = {v}\n    inner()\n    return {n}\n", "outer_{k}()"),
    "comp": ("r_{k} = [{n} * 2 for {n} in ({v},)]\n", "r_{k}"),
    "walrus": ("if ({n} := {v}):\n    pass\n", "{n}"),
    "selfattr": ("class C_{k}:\n    def __init__(self):\n        self.{n} = {v}\n    def get(self):\n        return self.{n}\n", "C_{k}().get(), C_{k}().{n}"),
    "clsattr": ("class D_{k}:\n    {n} = {v}\n", "D_{k}.{n}, D_{k}().{n}"),
}
CORE_FORMS = ["assign", "for", "def", "param", "clsattr", "selfattr", "kwonly", "lambda_param"]
NO_GLOBAL_IN = ("function", "method", "nested")

PRE = "import contextlib\n@contextlib.contextmanager\ndef cm(x):\n    yield x\n"


def name_pairs():
    return [(a, b) for a, b in itertools.permutations(FAMILY, 2)] + EXTRA_PAIRS


def build(n1, f1, n2, f2, scope):
    s1, r1 = FORMS[f1]
    s2, r2 = FORMS[f2]
    body = s1.format(n=n1, v=11, k="p") + "print(%s)\n" % r1.format(n=n1, v=11, k="p")
    body += s2.format(n=n2, v=22, k="q") + "print(%s)\n" % r2.format(n=n2, v=22, k="q")
    body += "print(%s)\n" % r1.format(n=n1, v=11, k="p") if f1 not in ("global",) or scope == "module" else ""
    ind = lambda s, k: textwrap.indent(s, " " * k)
    if scope == "module":
        return PRE + body
    if scope == "function":
        return PRE + "def scope_fn():\n" + ind(body, 4) + "    return 0\nscope_fn()\n"
    if scope == "method":
        return PRE + "class Scope:\n    def run(self):\n" + ind(body, 8) + "        return self\nScope().run()\n"
    if scope == "nested":
        return PRE + "def outer_scope():\n    def inner_scope():\n" + ind(body, 8) + "        return 0\n    return inner_scope()\nouter_scope()\n"
    raise ValueError(scope)


# generated names (family added after the seeded change C19-overused-constant-name-collision): the input already binds
# the name the tool is about to generate, in every spelling the convention can turn it into
GEN_LITERALS = {"tuple": "(11, 22, 33, 44, 55, 66, 77, 88)", "list": "[100, 200, 300, 400, 500, 600]", "identifier_string": "'configuration_value_x_long'",
                "dict": "{'a': 1, 'b': 2, 'c': 3, 'd': 4, 'e': 5}", "sentence": "'a sentence that is not an identifier'"}
GEN_TAKEN = ["PYREFACT_OVERUSED_CONSTANT_0", "pyrefact_overused_constant_0", "PYREFACT_OVERUSED_CONSTANT_1", "pyrefact_overused_constant_1",
             "CONFIGURATION_VALUE_X_LONG", "configuration_value_x_long", "_pyrefact_abstraction_1", "_pyrefact_abstraction_2"]
GEN_BINDINGS = {
    "module_assign": "{n} = 'taken'\n",
    "module_def": "def {n}():\n    return 'taken'\n",
    "module_import": "import math as {n}\n",
    "module_for": "for {n} in ('taken',):\n    pass\n",
    "module_assign_late": "",
}
ABSTRACTION_BODY = ("def control(c, a, b):\n    if c:\n        print(a + 1)\n        print(a)\n        print(a * 2)\n    else:\n        print(b + 1)\n"
                    "        print(b)\n        print(b * 2)\ncontrol(True, 1, 2)\ncontrol(False, 1, 2)\n")


def gen_program(lit, lit2, taken, binding, where):
    uses = "".join("print(%s, %d)\n" % (GEN_LITERALS[lit], i) for i in range(5))
    if lit2:
        uses += "".join("print(%s, %d)\n" % (GEN_LITERALS[lit2], i) for i in range(5))
    if where == "function":
        uses = "def user():\n" + textwrap.indent(uses, "    ") + "user()\n"
    head = GEN_BINDINGS[binding].format(n=taken)
    tail = "print(%s)\n" % taken if binding != "module_assign_late" else "%s = 'late'\nprint(%s)\n" % (taken, taken)
    return head + uses + ABSTRACTION_BODY + tail


def nested_shadow_build(n, f1, f2):
    """first binding of n at module level, second binding of the SAME name inside a function (a local variable that
    shadows it); both are read after both bindings (scope added after a function-local import was found to be renamed
    with the module variable it shadows)"""
    s1, r1 = FORMS[f1]
    s2, r2 = FORMS[f2]
    outer = s1.format(n=n, v=11, k="p") + "print(%s)\n" % r1.format(n=n, v=11, k="p")
    inner = s2.format(n=n, v=22, k="q") + "print(%s)\n" % r2.format(n=n, v=22, k="q")
    return PRE + outer + "def shadowing_fn():\n" + textwrap.indent(inner, "    ") + "    return 0\nshadowing_fn()\n" + "print(%s)\n" % r1.format(n=n, v=11, k="p")


SHADOW_NAMES = ["myVar", "my_var", "MY_VAR", "limit", "f"]
SHADOW_INNER_FORMS = ["assign", "augassign", "annassign", "tuple", "for", "with", "import_as", "def", "class", "except_as", "comp", "walrus", "lambda_param", "param"]


def units(tier):
    scopes = ["module", "function"] if tier == "quick" else ["module", "function", "method", "nested"]
    forms2 = CORE_FORMS if tier == "quick" else list(FORMS)
    for n1, n2 in name_pairs():
        for scope in scopes:
            yield {"n1": n1, "n2": n2, "scope": scope, "forms2": forms2}
    for n in SHADOW_NAMES:
        yield {"shadow": n}
    for lit in GEN_LITERALS:
        yield {"gen": lit}


def worker_init():
    progs.worker_setup()


def check(n1, f1, n2, f2, scope, with_fc, only=None, src=None, desc0=None):
    src = src or build(n1, f1, n2, f2, scope)
    orig = progs.run_prog(src)
    # deterministic programs only: printing a function object shows its address, which differs between two runs
    admitted = orig[0] == "ok" and " at 0x" not in orig[1] and progs.run_prog(src) == orig
    out, info = [], {"admitted": admitted, "nontrivial": []}
    if not admitted:
        return out, info
    entries = list(RULES) + (["format_code"] if with_fc else [])
    for entry in entries:
        if only and entry != only:
            continue
        desc = {**desc0, "entry": entry} if desc0 else {"n1": n1, "f1": f1, "n2": n2, "f2": f2, "scope": scope, "entry": entry}
        boot.clear_caches()
        try:
            new = progs.format_code(src) if entry == "format_code" else progs.call_rule(entry, src)
        except BaseException:  # noqa: BLE001
            info["blocked"] = info.get("blocked", 0) + 1
            continue
        if new == src:
            continue
        k = key_of(desc)
        info["nontrivial"].append(k)
        c = progs.compare(orig, new)
        if c is not None:
            site = entry
            if entry == "format_code":
                site, _ = progs.culprit(src, {}, orig)
            out.append(violation(site, c[0], "%s(%s) + %s(%s) in %s scope via %s: %s" % (n1, f1, n2, f2, scope, entry, c[1]), desc, key=k))
    return out, info


def _special_cases(unit):
    if "shadow" in unit:
        n = unit["shadow"]
        for f1 in ("assign", "def", "for", "import_as", "class"):
            for f2 in SHADOW_INNER_FORMS:
                yield {"shadow": n, "f1": f1, "f2": f2}, nested_shadow_build(n, f1, f2), (n, f1, n, f2, "shadow")
    else:
        lit = unit["gen"]
        for lit2 in (None, "tuple" if lit != "tuple" else "list"):
            for taken in GEN_TAKEN:
                for binding in GEN_BINDINGS:
                    for where in ("module", "function"):
                        yield ({"gen": lit, "gen2": lit2, "taken": taken, "binding": binding, "where": where},
                               gen_program(lit, lit2, taken, binding, where), (taken, binding, lit, str(lit2), where))


def run_unit(unit):
    tier = os.environ.get("MC_TIER", "quick")
    res = {"n": 0, "nontrivial": [], "viol": [], "stats": {}, "samples": []}
    st = res["stats"]
    if "shadow" in unit or "gen" in unit:
        for desc0, src, names in _special_cases(unit):
            v, info = check(*names, with_fc=True, src=src, desc0=desc0)
            if not info["admitted"]:
                st["program_not_admitted"] = st.get("program_not_admitted", 0) + 1
                continue
            res["n"] += 1
            res["nontrivial"].extend(info["nontrivial"])
            res["viol"].extend(v)
            if not res["samples"] and info["nontrivial"] and not v:
                res["samples"].append(desc0)
        return res
    for f1 in FORMS:
        for f2 in unit["forms2"]:
            if unit["scope"] != "module" and "global" in (f1, f2):
                pass  # global inside a function binds a module name: still a legal program
            with_fc = tier == "thorough" or (unit["scope"] == "module" and f1 in CORE_FORMS)
            v, info = check(unit["n1"], f1, unit["n2"], f2, unit["scope"], with_fc=with_fc)
            if not info["admitted"]:
                st["program_not_admitted"] = st.get("program_not_admitted", 0) + 1
                continue
            res["n"] += 1
            res["nontrivial"].extend(info["nontrivial"])
            res["viol"].extend(v)
            if not res["samples"] and info["nontrivial"] and not v:
                res["samples"].append({"n1": unit["n1"], "f1": f1, "n2": unit["n2"], "f2": f2, "scope": unit["scope"]})
    return res


def _special_src(desc):
    if "shadow" in desc:
        return nested_shadow_build(desc["shadow"], desc["f1"], desc["f2"]), (desc["shadow"], desc["f1"], desc["shadow"], desc["f2"], "shadow")
    return (gen_program(desc["gen"], desc["gen2"], desc["taken"], desc["binding"], desc["where"]),
            (desc["taken"], desc["binding"], desc["gen"], str(desc["gen2"]), desc["where"]))


def replay(desc):
    progs.worker_setup()
    if "shadow" in desc or "gen" in desc:
        src, names = _special_src(desc)
        return check(*names, with_fc=True, only=desc["entry"], src=src, desc0={k: v for k, v in desc.items() if k != "entry"})[0]
    return check(desc["n1"], desc["f1"], desc["n2"], desc["f2"], desc["scope"], True, only=desc["entry"])[0]


def explain(desc):
    src = _special_src(desc)[0] if ("shadow" in desc or "gen" in desc) else build(desc["n1"], desc["f1"], desc["n2"], desc["f2"], desc["scope"])
    boot.clear_caches()
    new = progs.format_code(src) if desc["entry"] == "format_code" else progs.call_rule(desc["entry"], src)
    return "--- original\n%s\n--- after %s\n%s\n--- outcomes %r -> %r" % (src, desc["entry"], new, progs.run_prog(src), progs.run_prog(new))
