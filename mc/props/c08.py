"""C08 - preserved names survive, within a file and across files."""
from __future__ import annotations

import itertools
import os
import sys

from mc import boot, progs, surface
from mc.kernel import key_of, violation
from mc.props.c07 import SerialPool

ID = "C08"
LEVEL = "exploration"
RULE = (
    "(a) one file: every single-item module of the surface alphabet and every pair of core items x every non-empty "
    "subset of the items whose names (top-level names, and class members both as 'Class.member' and as 'member') form "
    "the preserve set -> format_code(preserve=P) without safe mode; oracle: every name of P is still defined. (b) "
    "across files: a library module with 6 definitions (function, camelCase function, class with a method and a "
    "static method, variable, internally used function, duplicate function) x client modules that use every subset of "
    "them through each access form (from lib import n / import lib; lib.n / C().m() and C.sm() / inherited members reached through self and cls in a client subclass) x "
    "max_passes in {1, 5} x safe in {False, True}, on real files, through format_files(preserved_filenames=[client]) "
    "and the command line main([lib, --preserve, client]) (pool replaced by a serial stand-in: schedules are C06's "
    "subject); oracle: the client is executed before and after with a scrubbed import state - same stdout - and every "
    "name it uses is still defined in the library. non-trivial = formatting changed the library text"
)
RULE += (" (b2) a library that uses its own public names internally (self.method, helper, re-exported import, static method) x every subset of 8 names used by "
         "the client x preserved files in {client, client+library, library+client, the directory} x passes x safe x driver: the formatted file may itself be among the preserved ones.")
ASSUMPTIONS = [
    "class members are put into the preserve set in both spellings the code accepts ('Class.member' and 'member')",
    "multiprocessing.Pool is replaced by an in-process serial pool for (b)",
]


def worker_init():
    progs.worker_setup()


CORE_KINDS = ("func:snake", "func:camel", "class:snake", "class:camel", "assign:camel", "assign:upper", "assign:snake",
              "clsmembers:camel", "clsmembers:snake", "clsmembers_unused:camel", "dupfuncs", "dupfuncs_unused",
              "static_used_via_self", "func_used_by_unused:camel", "posthoc_attr", "constant_str", "tuple:camel")


def one_file_modules(tier):
    its = surface.items()
    for it in its:
        yield it[0]
    core = [i for i in its if i[0].startswith(CORE_KINDS)] if tier == "quick" else its
    for a, b in itertools.combinations(core, 2):
        if a[2] & b[2]:
            continue
        if (":under" in a[0] or ":under" in b[0]) and not (b[0].startswith(("dupfuncs", "clsmembers:camel")) or a[0].startswith(("dupfuncs", "clsmembers:camel"))):
            continue  # definitions named "_" are combined with two partners only (one root cause, KF-C08-underscore)
        yield a[0] + "+" + b[0]


LIB = '''def plain_func(x):
    return x + 1


def camelFunc(x):
    return x + 2


class Widget:
    def method(self, x):
        return x + 3

    @staticmethod
    def static_method(x):
        return x + 4


someVariable = 5


def _internal(x):
    return x + 6


def uses_internal(x):
    return _internal(x)


def twin_a(x):
    return x * 7


def twin_b(x):
    return x * 7
'''
LIB_NAMES = ["plain_func", "camelFunc", "Widget.method", "Widget.static_method", "someVariable", "uses_internal", "twin_b"]
FORMS = ["from_import", "module_attr", "subclass_self"]


def client_source(subset, form):
    lines = []
    uses = []
    top = sorted({n.split(".")[0] for n in subset})
    if form == "subclass_self":
        # the client reaches inherited members only through self / cls in a subclass
        lines.append("import vq_lib")
        lines.append("class Sub(vq_lib.Widget):")
        lines.append("    def run(self):")
        members = [n.split(".")[1] for n in subset if n.startswith("Widget.")]
        lines.append("        return [%s]" % ", ".join("self.%s(1)" % m for m in members))
        lines.append("    @classmethod")
        lines.append("    def crun(cls):")
        lines.append("        return [%s]" % ", ".join("cls.%s(1)" % m for m in members if m == "static_method"))
        if members:
            uses.append("print(Sub().run(), Sub.crun())")
        ref = lambda n: "vq_lib." + n
        for n in subset:
            if n.startswith("Widget."):
                continue
            uses.append("print(%s)" % ref(n) if n == "someVariable" else "print(%s(1))" % ref(n))
        return "\n".join(lines + uses) + "\n"
    if form == "from_import":
        if top:
            lines.append("from vq_lib import " + ", ".join(top))
        ref = lambda n: n
    else:
        lines.append("import vq_lib")
        ref = lambda n: "vq_lib." + n
    for n in subset:
        if n == "Widget.method":
            uses.append("print(%s().method(1))" % ref("Widget"))
        elif n == "Widget.static_method":
            uses.append("print(%s.static_method(1))" % ref("Widget"))
        elif n == "someVariable":
            uses.append("print(%s)" % ref(n))
        else:
            uses.append("print(%s(1))" % ref(n))
    return "\n".join(lines + uses) + "\n"


# a library that also uses its own public names internally (self.addValue, helperFunc, a re-export), formatted while the
# library ITSELF is among the preserved files ('pyrefact pkg/lib.py --preserve pkg'); family added after the seeded change
# C08-preserve-union-minus-own-names (names the file mentions itself were subtracted from what the other files need)
LIB2 = '''from os.path import join as joinPath


class Tally:
    total = 0

    def addValue(self, v):
        self.total += v
        return self.total

    def add_many(self, vs):
        for v in vs:
            self.addValue(v)
        return self.total

    @staticmethod
    def staticHelper(x):
        return x + 4


def helperFunc(x):
    return x + 2


def make_tally():
    t = Tally()
    t.addValue(helperFunc(0))
    return t


def unusedHelper(x):
    return Tally.staticHelper(x)


sharedValue = joinPath("a", "b")
'''
LIB2_NAMES = ["Tally.addValue", "Tally.add_many", "Tally.staticHelper", "helperFunc", "make_tally", "unusedHelper", "sharedValue", "joinPath"]
SCOPES = ["client", "client_and_lib", "lib_and_client", "directory"]


def client2_source(subset):
    lines, uses = ["import vq_lib"], []
    for n in subset:
        if n == "Tally.addValue":
            uses.append("print(vq_lib.Tally().addValue(3))")
        elif n == "Tally.add_many":
            uses.append("print(vq_lib.Tally().add_many([1, 2]))")
        elif n == "Tally.staticHelper":
            uses.append("print(vq_lib.Tally.staticHelper(1))")
        elif n == "sharedValue":
            uses.append("print(vq_lib.sharedValue)")
        elif n == "joinPath":
            uses.append("print(vq_lib.joinPath('c', 'd'))")
        elif n == "make_tally":
            uses.append("print(vq_lib.make_tally().total)")
        else:
            uses.append("print(vq_lib.%s(1))" % n)
    return "\n".join(lines + uses) + "\n"


def units(tier):
    keys = list(one_file_modules(tier))
    for i in range(0, len(keys), 25):
        yield {"t": "one", "keys": keys[i : i + 25]}
    subsets = [s for r in range(0, len(LIB_NAMES) + 1) for s in itertools.combinations(LIB_NAMES, r)]
    if tier == "quick":
        subsets = [s for s in subsets if len(s) <= 2 or len(s) >= len(LIB_NAMES) - 1]
    for s in subsets:
        for form in FORMS:
            yield {"t": "cross", "subset": list(s), "form": form}
    subsets2 = [s for r in range(0, len(LIB2_NAMES) + 1) for s in itertools.combinations(LIB2_NAMES, r)]
    if tier == "quick":
        subsets2 = [s for s in subsets2 if len(s) <= 2 or len(s) >= len(LIB2_NAMES) - 1]
    for s in subsets2:
        yield {"t": "cross2", "subset": list(s)}


# ------------------------------------------------------------------------------------------------


def check_one(key, only=None):
    res = {"n": 0, "nontrivial": [], "viol": [], "stats": {}, "samples": []}
    code, top, cls = surface.module_by_key(key)
    parts = key.split("+")
    its = {i[0]: i for i in surface.items()}
    for r in range(1, len(parts) + 1):
        for chosen in itertools.combinations(parts, r):
            ptop, pcls = set(), {}
            for c in chosen:
                ptop |= its[c][2]
                pcls.update(its[c][3])
            P = set(ptop)
            for c, ms in pcls.items():
                for m in ms:
                    P.add("%s.%s" % (c, m))
                    P.add(m)
            desc = {"key": key, "preserve_items": list(chosen)}
            if only and desc != only:
                continue
            res["n"] += 1
            boot.clear_caches()
            try:
                out = progs.format_code(code, {"preserve": sorted(P)})
            except BaseException:  # noqa: BLE001
                res["stats"]["blocked_by_C04"] = res["stats"].get("blocked_by_C04", 0) + 1
                continue
            if out == code:
                continue
            k = key_of(desc)
            res["nontrivial"].append(k)
            try:
                miss = surface.missing(ptop, pcls, out)
            except SyntaxError:
                continue
            if miss:
                site = "format_code(preserve)"
                try:
                    site, _ = progs.culprit(code, {"preserve": sorted(P)}, None, judge=lambda t: _still(t, ptop, pcls))
                except BaseException:  # noqa: BLE001
                    pass
                kinds = sorted({"underscore_name" if m.split(".")[-1] == "_" else ("class_member" if "." in m else "toplevel_name") for m in miss})
                res["viol"].append(violation(site, "preserved_name_lost:" + "+".join(kinds),
                                             "%s preserve=%s: lost %s" % (key, list(chosen), ", ".join(miss)), desc, key=k))
            elif not res["samples"]:
                res["samples"].append(desc)
    return res


def _still(text, top, cls):
    try:
        return not surface.missing(top, cls, text)
    except SyntaxError:
        return True


def _run_client(d, client_src):
    for m in [m for m in sys.modules if m.startswith("vq_")]:
        del sys.modules[m]
    import importlib

    importlib.invalidate_caches()
    sys.path.insert(0, d)
    try:
        return progs.run_prog(client_src)
    finally:
        sys.path.remove(d)
        for m in [m for m in sys.modules if m.startswith("vq_")]:
            del sys.modules[m]


def check_cross(subset, form, only=None):
    return _check_cross(subset, form, only, LIB, ["client"])


def check_cross2(subset, only=None):
    return _check_cross(subset, "lib2", only, LIB2, SCOPES)


def _check_cross(subset, form, only, LIB, scopes):
    main = boot.main_module()
    res = {"n": 0, "nontrivial": [], "viol": [], "stats": {}, "samples": []}
    client = client2_source(subset) if form == "lib2" else client_source(subset, form)
    cls_name = "Tally" if form == "lib2" else "Widget"
    for max_passes, safe, driver, scope in itertools.product((1, 5), (False, True), ("format_files", "cli"), scopes):
            if True:
                if driver == "cli" and max_passes == 1 and not safe:
                    continue  # the command line uses 5 passes, or 1 in safe mode
                if driver == "cli" and max_passes == 5 and safe:
                    continue
                desc = {"subset": subset, "form": form, "max_passes": max_passes, "safe": safe, "driver": driver}
                if scope != "client":
                    desc["scope"] = scope
                if only and desc != only:
                    continue
                res["n"] += 1
                d = os.path.join(os.getcwd(), "c08x")
                os.makedirs(d, exist_ok=True)
                lib_path, client_path = os.path.join(d, "vq_lib.py"), os.path.join(d, "vq_client.py")
                with open(lib_path, "w") as f:
                    f.write(LIB)
                with open(client_path, "w") as f:
                    f.write(client)
                before = _run_client(d, client)
                if before[0] != "ok":
                    res["stats"]["client_not_admitted"] = res["stats"].get("client_not_admitted", 0) + 1
                    continue
                real_pool = main.mp.Pool
                main.mp.Pool = SerialPool
                real_set_level = main.logger.set_level
                main.logger.set_level = lambda level: None  # the CLI turns logging on; keep the harness quiet
                boot.clear_caches()
                try:
                    pres = {"client": [client_path], "client_and_lib": [client_path, lib_path], "lib_and_client": [lib_path, client_path],
                            "directory": None}[scope]
                    if driver == "format_files":
                        if pres is None:  # what the command line does with a directory: every .py file below it
                            pres = sorted(os.path.join(d, f) for f in os.listdir(d) if f.endswith(".py"))
                        main.format_files([lib_path], preserved_filenames=pres, n_cores=1, max_passes=max_passes, safe=safe)
                    else:
                        main.main([lib_path, "--preserve"] + (pres or [d]) + (["--safe"] if safe else []))
                except BaseException as e:  # noqa: BLE001
                    res["stats"]["blocked_by_C04"] = res["stats"].get("blocked_by_C04", 0) + 1
                    continue
                finally:
                    main.mp.Pool = real_pool
                    main.logger.set_level = real_set_level
                new_lib = open(lib_path).read()
                k = key_of(desc)
                if new_lib != LIB:
                    res["nontrivial"].append(k)
                if open(client_path).read() != client:
                    res["viol"].append(violation(driver, "preserved_file_modified", "the preserved client file was rewritten", desc, key=k))
                    continue
                after = _run_client(d, client)
                top = {n.split(".")[0] for n in subset}
                cls = {cls_name: {n.split(".")[1] for n in subset if "." in n}}
                try:
                    miss = surface.missing(top, cls, new_lib)
                except SyntaxError:
                    miss = ["<library no longer parses>"]
                if after != before or miss:
                    res["viol"].append(violation(driver, "dependent_file_broken",
                                                 "client using %s via %s (passes=%d safe=%s): %s; missing %s" % (
                                                     subset, form, max_passes, safe,
                                                     "client output %r -> %r" % (before[1][:40], (after[0] + ":" + after[1])[:60]) if after != before else "client ok",
                                                     miss), desc, key=k))
                elif not res["samples"] and new_lib != LIB:
                    res["samples"].append(desc)
    return res


def run_unit(unit):
    if unit["t"] == "one":
        res = {"n": 0, "nontrivial": [], "viol": [], "stats": {}, "samples": []}
        for key in unit["keys"]:
            r = check_one(key)
            res["n"] += r["n"]
            res["nontrivial"] += r["nontrivial"]
            res["viol"] += r["viol"]
            for k, v in r["stats"].items():
                res["stats"][k] = res["stats"].get(k, 0) + v
            if not res["samples"]:
                res["samples"] = r["samples"]
        return res
    if unit["t"] == "cross2":
        return check_cross2(unit["subset"])
    return check_cross(unit["subset"], unit["form"])


def replay(desc):
    progs.worker_setup()
    if "key" in desc:
        return check_one(desc["key"], only=desc)["viol"]
    if desc["form"] == "lib2":
        return check_cross2(desc["subset"], only=desc)["viol"]
    return check_cross(desc["subset"], desc["form"], only=desc)["viol"]


def explain(desc):
    if "key" in desc:
        return surface.module_by_key(desc["key"])[0]
    if desc["form"] == "lib2":
        return "client:\n" + client2_source(desc["subset"]) + "\nlibrary:\n" + LIB2 + "\npreserved: " + desc.get("scope", "client")
    return "client:\n" + client_source(desc["subset"], desc["form"]) + "\nlibrary:\n" + LIB
