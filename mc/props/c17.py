"""C17 - boolean, comparison, range and sum rewrites are logically equivalent (exhaustive truth tables)."""
from __future__ import annotations

import itertools
import os

from mc import boot, progs
from mc.kernel import key_of, violation

ID = "C17"
LEVEL = "exploration"
RULE = (
    "formulas: atoms v?c and c?v (v in {x,y}, c in {0,1,2}, 6 comparison operators); every and/or of 2 atoms, every "
    "and/or of 3 atoms over x (quick: v?c orientation only), not-forms and one level of nesting, and, as the test of a "
    "conditional expression, and/or/not of 2-3 integer operands from {x, y, -x, +x, ~x, not x, x+1, x-1, x%2, -y, x*y, x>0}, each rewritten by "
    "simplify_boolean_expressions, ..._symmath, replace_negated_numeric_comparison, remove_redundant_boolop_values and, "
    "as the condition of an if/else or loop body, by swap_if_else / early_continue / early_return / fix_if_return / "
    "fix_if_assign; ranges: range(a[,b[,s]]) with a,b in 0..4, s in {1,2,3,-1} x filters of 1-2 atoms over the loop "
    "variable (and i % k == r) x comprehension kind through simplify_constrained_range; sums: sum over ranges, affine "
    "generator expressions, literal collections and nested generators through simplify_math_iterators / "
    "inline_math_comprehensions. oracle: original and rewritten text are executed under every valuation x,y in "
    "{-1..3}: equal value and equal type. non-trivial = the rule changed the text"
)
RULE += (" chained comparisons and membership tests (15 chains; alone, negated, combined with a simple comparison or another chain) as formulas and as conditions of the eight condition shapes.")
ASSUMPTIONS = [
    "operands of and/or are comparisons (booleans), so reordering by the simplifier cannot change the value",
    "the box {-1..3} strictly contains every constant and every +-1 boundary of the atoms",
]

OPS = ["<", "<=", "==", "!=", ">", ">="]
VALS = [(x, y) for x in range(-1, 4) for y in range(-1, 4)]
BOOL_RULES = ["symbolic_math.simplify_boolean_expressions", "symbolic_math.simplify_boolean_expressions_symmath",
              "fixes.replace_negated_numeric_comparison", "fixes.remove_redundant_boolop_values"]
COND_RULES = ["fixes.swap_if_else", "fixes.early_continue", "fixes.early_return", "fixes.fix_if_return", "fixes.fix_if_assign",
              "fixes.remove_redundant_else", "fixes.replace_with_filter"]


def atoms(vars_=("x", "y"), both=True):
    out = []
    for v in vars_:
        for o in OPS:
            for c in (0, 1, 2):
                out.append("%s %s %d" % (v, o, c))
                if both:
                    out.append("%d %s %s" % (c, o, v))
    return out


def formulas(tier):
    a2 = atoms()
    for a, b in itertools.product(a2, repeat=2):
        for j in ("and", "or"):
            yield "%s %s %s" % (a, j, b)
    a3 = atoms(("x",), both=(tier == "thorough"))
    for a, b, c in itertools.product(a3, repeat=3):
        for j in ("and", "or"):
            yield "%s %s %s %s %s" % (a, j, b, j, c)
    for a in a2:
        yield "not %s" % a
        yield "not (%s)" % a
    a1 = atoms(("x",), both=False)
    for a, b in itertools.product(a1, repeat=2):
        yield "not (%s and %s)" % (a, b)
        yield "not (%s or %s)" % (a, b)
        yield "not %s and not %s" % (a, b)
        for c in ("y > 0", "y <= 1"):
            yield "(%s and %s) or %s" % (a, b, c)
            yield "(%s or %s) and %s" % (a, b, c)
            yield "(%s and %s) or (%s and %s)" % (a, c, b, c)


# operands that are integers rather than comparisons (added after the seeded change C17-unaryop-as-not, where -x was
# translated as "not x"): judged in a truth context, which is what a condition is; value-context and/or is C15's business
INT_OPERANDS = ["x", "y", "-x", "+x", "~x", "not x", "x + 1", "x - 1", "x % 2", "-y", "x * y", "x > 0"]


def int_formulas(tier):
    for a, b in itertools.product(INT_OPERANDS, repeat=2):
        for j in ("and", "or"):
            yield "%s %s %s" % (a, j, b)
            yield "not (%s %s %s)" % (a, j, b)
    for a in INT_OPERANDS:
        yield "not %s" % a
        yield "not not %s" % a
    ops3 = INT_OPERANDS if tier == "thorough" else INT_OPERANDS[:6]
    for a, b, c in itertools.product(ops3, repeat=3):
        yield "%s and (%s or %s)" % (a, b, c)
        yield "%s or %s and %s" % (a, b, c)
        if tier == "thorough":
            yield "%s and %s and %s" % (a, b, c)
            yield "%s or %s or %s" % (a, b, c)


# chained comparisons and membership tests as operands (family added after the seeded change C17-negate-chained-comparison:
# flipping the single operator of "0 < x < 5" dropped the second link); used as plain formulas and as conditions
CHAINS = ["0 < x < 2", "0 <= x <= y", "x < y < 2", "0 < x <= 1 < y", "x == y == 1", "0 != x != 2", "y > x > 0", "0 < x < y < 3", "x < 1 > y",
          "x in (0, 1)", "x not in (0, 1)", "0 < x in (1, 2)", "x == 1 != y", "-1 < x < 3", "2 > x >= 0"]


def chain_formulas():
    simple = ["x > 0", "y <= 1", "x != 1"]
    for c in CHAINS:
        yield c
        yield "not %s" % c
        yield "not (%s)" % c
        for a in simple:
            for j in ("and", "or"):
                yield "%s %s %s" % (c, j, a)
                yield "%s %s %s" % (a, j, c)
                yield "not (%s %s %s)" % (c, j, a)
    for c1, c2 in itertools.product(CHAINS[:6], repeat=2):
        yield "%s and %s" % (c1, c2)
        yield "not (%s or %s)" % (c1, c2)


COND_SHAPES = {
    "if_pass_else": "def g(x, y):\n    if {F}:\n        pass\n    else:\n        print('E')\n    print('after')\n",
    "if_long_else_short": "def g(x, y):\n    if {F}:\n        print(1)\n        print(2)\n        print(3)\n        print(4)\n    else:\n        print('E')\n    print('after')\n",
    "loop_if": "def g(x, y):\n    for i in range(2):\n        if {F}:\n            print(i)\n            print(i + 1)\n            print(i + 2)\n            print(i + 3)\n            print(i + 4)\n",
    "if_return_bool": "def g(x, y):\n    if {F}:\n        return True\n    return False\n",
    "if_return_bool_neg": "def g(x, y):\n    if {F}:\n        return False\n    else:\n        return True\n",
    "if_assign_bool": "def g(x, y):\n    if {F}:\n        b = False\n    else:\n        b = True\n    return b\n",
    "early_return": "def g(x, y):\n    if {F}:\n        w = 1\n    else:\n        w = 2\n    return w\n",
    "filter_loop": "def g(x, y):\n    for x in range(-1, 4):\n        if {F}:\n            print(x)\n",
}
DRIVER = "for x in range(-1, 4):\n    for y in range(-1, 4):\n        print(x, y, repr(g(x, y)))\n"


def ranges():
    for a in range(5):
        yield "range(%d)" % a
    for a, b in itertools.product(range(5), repeat=2):
        yield "range(%d, %d)" % (a, b)
    for a, b in itertools.product(range(5), repeat=2):
        for s in (1, 2, 3, -1):
            yield "range(%d, %d, %d)" % (a, b, s)


def filters(tier):
    single = ["i %s %d" % (o, c) for o in OPS for c in (0, 1, 2, 3)] + ["%d %s i" % (c, o) for o in OPS for c in (1, 2)]
    single += ["i %% %d == %d" % (k, r) for k in (2, 3) for r in (0, 1)] + ["i % 2 != 0", "i % 2"]
    for f in single:
        yield [f]
    pairs = single if tier == "thorough" else single[:24:2]
    for f, g in itertools.product(pairs, repeat=2):
        if f != g:
            yield [f, g]
            if tier == "thorough":
                yield ["%s and %s" % (f, g)]


COMP_KINDS = {"list": "[i for i in {R} {IFS}]", "set": "sorted({{i for i in {R} {IFS}}})", "gen": "list(i for i in {R} {IFS})",
              "sum": "sum(i for i in {R} {IFS})", "elt": "[i * 2 + 1 for i in {R} {IFS}]"}


def sums():
    for a, b in itertools.product(range(-1, 5), repeat=2):
        yield "sum(range(%d, %d))" % (a, b)
    for a in range(-1, 5):
        yield "sum(range(%d))" % a
    for a, b in itertools.product(range(0, 4), repeat=2):
        for s in (1, 2, 3, -1):
            yield "sum(range(%d, %d, %d))" % (a, b, s)
            yield "sum(i for i in range(%d, %d, %d))" % (a, b, s)
        for k, c in itertools.product((1, 2, -1), (0, 1, 3)):
            yield "sum(%d * i + %d for i in range(%d, %d))" % (k, c, a, b)
            yield "sum([%d * i + %d for i in range(%d, %d)])" % (k, c, a, b)
        yield "sum(i * i for i in range(%d, %d))" % (a, b)
        yield "sum(i ** 2 for i in range(%d, %d))" % (a, b)
        yield "sum(1 for i in range(%d, %d))" % (a, b)
        yield "sum(x for i in range(%d, %d))" % (a, b)
        yield "sum(x * i for i in range(%d, %d))" % (a, b)
        yield "sum(i + j for i in range(%d) for j in range(%d))" % (a, b)
        yield "sum(i * j for i in range(%d) for j in range(i, %d))" % (a, b)
        yield "sum(range(x, %d))" % b
        yield "sum(range(%d, y))" % a
        yield "sum(i for i in range(x, y))"
    for lit in ("[1, 2, 3]", "(1, 2)", "{1, 2, 2}", "[]", "[1.5, 2]", "[x, y]", "[x, 1, x]", "(1,)"):
        yield "sum(%s)" % lit
    yield "sum([1, 2], 5)"
    yield "sum(range(3), x)"


SUM_RULES = ["symbolic_math.simplify_math_iterators", "fixes.inline_math_comprehensions"]


def _chunks(it, n):
    buf = []
    for x in it:
        buf.append(x)
        if len(buf) == n:
            yield buf
            buf = []
    if buf:
        yield buf


def units(tier):
    for ch in _chunks(formulas(tier), 200):
        yield {"t": "bool", "forms": ch}
    for ch in _chunks(("1 if %s else 2" % f for f in int_formulas(tier)), 100):
        yield {"t": "bool", "forms": ch}
    cond_forms = [f for i, f in enumerate(formulas("quick")) if " and " in f or " or " in f or f.startswith("not")]
    cond_forms = cond_forms[:: (7 if tier == "quick" else 1)] + ["not %s" % a for a in atoms()] + list(chain_formulas())
    for ch in _chunks(chain_formulas(), 100):
        yield {"t": "bool", "forms": ch}
    for ch in _chunks(cond_forms, 40):
        yield {"t": "cond", "forms": ch}
    for r in ranges():
        yield {"t": "range", "range": r}
    for ch in _chunks(sums(), 40):
        yield {"t": "sum", "exprs": ch}


def _eval_all(src):
    """-> list of (type name, repr) of r under every valuation, or exception names"""
    try:
        code = compile(src, "<c17>", "exec")
    except SyntaxError:
        return None
    out = []
    for x, y in VALS:
        g = {"x": x, "y": y}
        try:
            exec(code, g)
            out.append((type(g["r"]).__name__, repr(g["r"])))
        except Exception as e:  # noqa: BLE001
            out.append(("exc", type(e).__name__))
    return out


def check_expr(expr, rule):
    src = "r = %s\n" % expr
    desc = {"expr": expr, "rule": rule}
    boot.clear_caches()
    try:
        out = progs.call_rule(rule, src)
    except BaseException:  # noqa: BLE001
        return [], "blocked"
    if out == src:
        return [], "unchanged"
    a, b = _eval_all(src), _eval_all(out)
    if b is None:
        return [violation(rule, "invalid_output", "%s -> %r" % (expr, out[:80]), desc)], "changed"
    if a != b:
        idx = next(i for i in range(len(VALS)) if a[i] != b[i])
        return [violation(rule, "not_equivalent", "%s -> %s ; at x,y=%s: %s -> %s" % (
            expr, out[4:].strip()[:80], VALS[idx], a[idx], b[idx]), desc)], "changed"
    return [], "changed"


def check_cond(form, shape, rule):
    src = COND_SHAPES[shape].replace("{F}", form) + DRIVER
    desc = {"form": form, "shape": shape, "rule": rule}
    orig = progs.run_prog(src)
    if orig[0] != "ok":
        return [], "not_admitted"
    boot.clear_caches()
    try:
        out = progs.call_rule(rule, src)
    except BaseException:  # noqa: BLE001
        return [], "blocked"
    if out == src:
        return [], "unchanged"
    c = progs.compare(orig, out)
    if c is not None:
        return [violation(rule, "not_equivalent" if c[0] == "stdout_diff" else c[0], "%s in %s: %s" % (form, shape, c[1]), desc)], "changed"
    return [], "changed"


def run_unit(unit):
    tier = os.environ.get("MC_TIER", "quick")
    res = {"n": 0, "nontrivial": [], "viol": [], "stats": {}, "samples": []}
    st = res["stats"]

    def tally(v, status, k, sample):
        res["n"] += 1
        st[status] = st.get(status, 0) + 1
        if status == "changed":
            res["nontrivial"].append(key_of(k))
            if not v and not res["samples"]:
                res["samples"].append(sample)
        res["viol"].extend(v)

    if unit["t"] == "bool":
        for f in unit["forms"]:
            for rule in BOOL_RULES:
                v, s = check_expr(f, rule)
                tally(v, s, ["b", f, rule], {"formula": f, "rule": rule})
    elif unit["t"] == "cond":
        for f in unit["forms"]:
            for shape in COND_SHAPES:
                for rule in COND_RULES:
                    v, s = check_cond(f, shape, rule)
                    if s == "not_admitted":
                        break
                    tally(v, s, ["c", f, shape, rule], {"formula": f, "shape": shape, "rule": rule})
    elif unit["t"] == "range":
        for ifs in filters(tier):
            kinds = COMP_KINDS if len(ifs) == 1 or tier == "thorough" else {"list": COMP_KINDS["list"]}
            for kname, tmpl in kinds.items():
                expr = tmpl.replace("{R}", unit["range"]).replace("{IFS}", " ".join("if " + f for f in ifs))
                v, s = check_expr(expr, "symbolic_math.simplify_constrained_range")
                tally(v, s, ["r", expr], {"expr": expr})
    else:
        for e in unit["exprs"]:
            for rule in SUM_RULES:
                v, s = check_expr(e, rule)
                tally(v, s, ["s", e, rule], {"expr": e, "rule": rule})
    return res


def replay(desc):
    if "shape" in desc:
        return check_cond(desc["form"], desc["shape"], desc["rule"])[0]
    return check_expr(desc["expr"], desc["rule"])[0]
