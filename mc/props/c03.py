"""C03 - valid Python in, valid Python out; never write a broken file."""
from __future__ import annotations

import ast
import builtins
import io
import os
import textwrap

from mc import boot, corpus, progs
from mc.kernel import key_of, violation

ID = "C03"
LEVEL = "fault_enumeration"
RULE = (
    "(a) a case = (input text, entry point): inputs = every atom program (module context), every construct of the "
    "construct corpus alone / first / last of two statements / indented 4 and 8, every vendored repository example (thorough: "
    "and 18 vendored standard-library modules); "
    "entry points = format_code (default, safe; thorough: all five configurations) and each of the 86 rules "
    "(valid inputs only); plus pattern_matching.sub/subn over patterns x replacement templates (including templates "
    "that are invalid in context) x sources x count; oracle: the output reaches the validity level of the input "
    "(compile / ast.parse / ast.parse after dedent). (b) fault enumeration on format_file: 9 initial file contents "
    "x 5 injected format_code results x {mod.py, __init__.py} x safe, with every write-mode open logged, against a "
    "reference model of the write guard. non-trivial = the entry point changed the text / the file case reaches the guard"
)
ASSUMPTIONS = [
    "validity is judged by CPython's compile()/ast.parse; output is held to the level the input had",
    "entry points that raise are C04's business (blocked here)",
]


def worker_init():
    progs.worker_setup()


# ------------------------------------------------------------------------------------------------


def level(src):
    """3 = compiles, 2 = parses, 1 = parses after dedent, 0 = invalid"""
    try:
        compile(src, "<c03>", "exec", dont_inherit=True)
        return 3
    except (SyntaxError, ValueError):
        pass
    try:
        ast.parse(src)
        return 2
    except (SyntaxError, ValueError):
        pass
    try:
        ast.parse(textwrap.dedent(src))
        return 1
    except (SyntaxError, ValueError):
        return 0


def get_input(ref):
    kind = ref[0]
    if kind == "atom":
        return progs.build([ref[1]], "module")
    if kind == "construct":
        return dict(corpus.construct_variants(ref[1]))[ref[2]]
    if kind == "stdlib":
        return corpus.stdlib_files()[ref[1]]
    if kind == "example":
        for e in corpus.repo_examples():
            if e["id"] == ref[1]:
                return e["input"]
    raise KeyError(ref)


SUB_PATTERNS = ["f({{a}})", "{{x}} = {{y}}", "x", "return {{v}}", "if {{c}}:\n    {{b}}"]
SUB_REPLACEMENTS = ["g({{a}})", "(((", "return 1", "{{a}} = 1", "if {{a}}:\n    pass", "", "{{a}}; {{a}}", "{{x}} += {{y}}",
                    "lambda: {{y}}", "{{c}}", "yield", "x y", "[{{a}}", "pass"]
SUB_SOURCES = [
    "f(1)\n", "x = f(f(2))\n", "def h():\n    y = f(3)\n    return y\n", "x = 1; y = f(x)\n",
    "if f(1):\n    x = 2\nelse:\n    x = f(3)\n", "class A:\n    x = f(1)\n", "z = [f(i) for i in x]\n",
    "x = (f(1),\n     f(2))\n", "lambda: f(1)\n", "def h():\n    return x\n", "if x:\n    x = 1\n",
]


def units(tier):
    for n in progs.ATOMS:
        yield {"t": "text", "ref": ["atom", n]}
    for n in corpus.CONSTRUCTS:
        for v, _ in corpus.construct_variants(n):
            yield {"t": "text", "ref": ["construct", n, v]}
    for e in corpus.repo_examples():
        yield {"t": "text", "ref": ["example", e["id"]]}
    if tier == "thorough":
        for f in corpus.stdlib_files():
            yield {"t": "text", "ref": ["stdlib", f]}
    for p in SUB_PATTERNS:
        for s in SUB_SOURCES:
            yield {"t": "sub", "pattern": p, "source": s}
    for i in range(len(FILE_CONTENTS)):
        yield {"t": "file", "content": i}


# ------------------------------------------------------------------------------------------------
# (a) text level


def _check_text(ref, tier, only=None):
    src = get_input(ref)
    lv = level(src)
    res = {"n": 0, "nontrivial": [], "viol": [], "stats": {"inputs_level_%d" % lv: 1}, "samples": []}
    st = res["stats"]
    if lv == 0:
        return res
    entries = []
    cfgs = ["default", "safe"] if tier == "quick" else ["default", "safe", "keep_imports", "preserve_all", "safe_keep_preserve"]
    from mc.props import c01

    for cname in cfgs:
        entries.append("format_code:" + cname)
    if lv >= 2:
        entries += list(progs.rules())
    for ep in entries:
        if only and ep != only:
            continue
        desc = {"ref": ref, "entry": ep}
        res["n"] += 1
        boot.clear_caches()
        try:
            if ep.startswith("format_code:"):
                try:
                    cfg = c01.make_cfg(ep[12:], src) if lv >= 2 else ({"safe": True} if "safe" in ep else {})
                except SyntaxError:
                    cfg = {}
                out = progs.format_code(src, cfg)
            else:
                out = progs.call_rule(ep, src)
        except BaseException:  # noqa: BLE001
            st["blocked_by_C04"] = st.get("blocked_by_C04", 0) + 1
            continue
        if not isinstance(out, str) or out == src:
            continue
        k = key_of(desc)
        res["nontrivial"].append(k)
        lo = level(out)
        if lo < lv:
            site = ep
            if ep.startswith("format_code:"):
                cfg2 = cfg
                site, _ = progs.culprit(src, cfg2, None, judge=lambda t: level(t) >= lv)
            res["viol"].append(violation(site, "invalid_output" if lo < 2 and lv >= 2 else "validity_level_%d_to_%d" % (lv, lo),
                                         "%s via %s: output level %d < input level %d" % (ref, ep, lo, lv), desc, key=k))
        elif not res["samples"]:
            res["samples"].append({"input": ref, "entry": ep, "input_level": lv, "output_level": lo})
    return res


# ------------------------------------------------------------------------------------------------
# (a2) substitution


def _check_sub(pattern, source, only=None):
    from pyrefact import pattern_matching

    res = {"n": 0, "nontrivial": [], "viol": [], "stats": {}, "samples": []}
    lv = level(source)
    for repl in SUB_REPLACEMENTS:
        for count in (0, 1):
            for fn in ("sub", "subn"):
                desc = {"pattern": pattern, "repl": repl, "source": source, "count": count, "fn": fn}
                if only and desc != only:
                    continue
                res["n"] += 1
                boot.clear_caches()
                try:
                    out = getattr(pattern_matching, fn)(pattern, repl, source, count=count)
                except BaseException:  # noqa: BLE001
                    res["stats"]["sub_raised"] = res["stats"].get("sub_raised", 0) + 1
                    continue
                if fn == "subn":
                    out = out[0] if isinstance(out, tuple) else out
                if out == source:
                    continue
                k = key_of(desc)
                res["nontrivial"].append(k)
                if level(out) < min(lv, 2):
                    res["viol"].append(violation("pattern_matching." + fn, "invalid_output",
                                                 "sub(%r, %r, %r, count=%d) -> %r" % (pattern, repl, source, count, out[:80]), desc, key=k))
                elif not res["samples"]:
                    res["samples"].append(desc)
    return res


# ------------------------------------------------------------------------------------------------
# (b) file level

FILE_CONTENTS = [
    ("valid_changed", b"x = list()\n"),
    ("valid_fixed_point", b"x = []\n"),
    ("valid_ws_only_change", b"x = []   \n"),
    ("invalid", b"x = (\n"),
    ("empty", b""),
    ("skip_file", b"x = list()  # pyrefact: skip_file\n"),
    ("non_ascii", "s = '\u00e9\u2192'\nx = list()\n".encode("utf-8")),
    ("crlf", b"x = list()\r\ny = 1\r\n"),
    ("no_trailing_newline", b"x = list()"),
]
INJECT = ["real", "identity", "valid_change", "invalid_change", "ws_change"]


def _inject(kind, real_fc):
    if kind == "real":
        return real_fc
    if kind == "identity":
        return lambda source, **k: source
    if kind == "valid_change":
        return lambda source, **k: "injected_valid = 1\n"
    if kind == "invalid_change":
        return lambda source, **k: source + "\n((( broken\n"
    if kind == "ws_change":
        return lambda source, **k: source + "\n"
    raise ValueError(kind)


def _valid(txt):
    try:
        ast.parse(txt)
        return True
    except (SyntaxError, ValueError):
        return False


def _check_file(ci, only=None):
    main = boot.main_module()
    res = {"n": 0, "nontrivial": [], "viol": [], "stats": {}, "samples": []}
    label, content = FILE_CONTENTS[ci]
    real_fc = main.format_code
    real_open = builtins.open
    for inj in INJECT:
        for fname in ("mod.py", "__init__.py"):
            for safe in (False, True):
                desc = {"content": label, "inject": inj, "file": fname, "safe": safe}
                if only and desc != only:
                    continue
                res["n"] += 1
                d = os.path.join(os.getcwd(), "c03_%d" % ci)
                os.makedirs(d, exist_ok=True)
                path = os.path.join(d, fname)
                with real_open(path, "wb") as f:
                    f.write(content)
                with real_open(path, "r", encoding="utf-8") as f:
                    old_text = f.read()
                writes = []
                seen_new = []

                def logging_open(file, mode="r", *a, **k):
                    if any(c in mode for c in "wax+") and os.path.abspath(str(file)) == path:
                        writes.append(mode)
                    return real_open(file, mode, *a, **k)

                fc = _inject(inj, real_fc)

                def spy(source, **k):
                    out = fc(source, **k)
                    seen_new.append((out, k.get("keep_imports")))
                    return out

                main.format_code = spy
                builtins.open = logging_open
                io_open = io.open
                io.open = logging_open
                boot.clear_caches()
                try:
                    try:
                        ret = main.format_file(path, frozenset(), safe)
                        exc = None
                    except BaseException as e:  # noqa: BLE001
                        ret, exc = None, e
                finally:
                    main.format_code = real_fc
                    builtins.open = real_open
                    io.open = io_open
                with real_open(path, "rb") as f:
                    after_bytes = f.read()
                with real_open(path, "r", encoding="utf-8") as f:
                    after_text = f.read()
                os.remove(path)
                k = key_of(desc)
                if exc is not None:
                    res["stats"]["blocked_by_C04"] = res["stats"].get("blocked_by_C04", 0) + 1
                    continue
                res["nontrivial"].append(k)
                new, keep = seen_new[0]
                problems = []
                if keep != (fname == "__init__.py"):
                    problems.append("keep_imports=%r for %s" % (keep, fname))
                expect_write = new != old_text and (_valid(new) or not _valid(old_text))
                if expect_write:
                    if after_text != new:
                        problems.append("file should contain the formatted text")
                    if not ret:
                        problems.append("written but change not reported")
                else:
                    if after_bytes != content:
                        problems.append("file bytes changed although no write was due (%s)" % (
                            "valid file replaced by invalid text" if _valid(old_text) and not _valid(after_text) else "content unchanged or invalid"))
                    if writes:
                        problems.append("file opened for writing (%s) although no write was due" % writes)
                    if ret:
                        problems.append("change reported although nothing was written")
                if _valid(old_text) and not _valid(after_text):
                    problems.append("valid file replaced by an invalid one")
                for pr in problems[:1]:
                    res["viol"].append(violation("format_file", "write_guard", "%s: %s" % (desc, pr), desc, key=k))
                if not problems and not res["samples"]:
                    res["samples"].append({**desc, "written": bool(writes)})
                res["stats"]["file_cases_written" if writes else "file_cases_not_written"] = \
                    res["stats"].get("file_cases_written" if writes else "file_cases_not_written", 0) + 1
    return res


def run_unit(unit):
    tier = os.environ.get("MC_TIER", "quick")
    if unit["t"] == "text":
        return _check_text(unit["ref"], tier)
    if unit["t"] == "sub":
        return _check_sub(unit["pattern"], unit["source"])
    return _check_file(unit["content"])


def replay(desc):
    progs.worker_setup()
    if "ref" in desc:
        return _check_text(desc["ref"], "thorough", only=desc["entry"])["viol"]
    if "pattern" in desc:
        return _check_sub(desc["pattern"], desc["source"], only=desc)["viol"]
    ci = [l for l, _ in FILE_CONTENTS].index(desc["content"])
    return _check_file(ci, only=desc)["viol"]


def explain(desc):
    if "ref" in desc:
        return "input text:\n" + get_input(desc["ref"])
    return ""
