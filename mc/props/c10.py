"""C10 - rewrites are scheduled transactionally and never overlap.

Explicit enumeration of every schedule (subset of candidate rewrites x yield order x transaction
numbering x split into rule groups) against a boring reference model, on the real
processing._schedule_rewrites / _apply_rewrites and through the public fix()/chain() wrappers.
"""
from __future__ import annotations

import ast
import itertools
import re

from mc.kernel import key_of, violation

ID = "C10"
LEVEL = "model_checking"
RULE = (
    "a case = one schedule: subset R of the candidate rewrites over a fixed 8-line base module "
    "(|R|<=3 quick, <=4 thorough) x every yield order x transaction number per rewrite in "
    "{default,0,1} (|R|=3 in quick and |R|=4: {default,0}) x every split of the order into 1-2 rule groups; run on _schedule_rewrites + "
    "_apply_rewrites (all) and on the public fix()/chain() wrappers (all); compared with the "
    "reference scheduler model; non-trivial = the schedule has >=2 rewrites and at least one "
    "transaction was dropped or rolled back, or >=2 were applied together"
)
ASSUMPTIONS = [
    "reference model: group by (rule index, number); default numbers follow yield order below all explicit "
    "ones; later equal transaction dropped; per rule, ascending number: drop on ignored line / self overlap / "
    "overlap with accepted; splice from the end; roll back if the result does not parse",
    "output compared as a tree (whitespace and the 'pass' put into an emptied block are not part of the property); "
    "roll-back compared byte for byte",
]

BASE = (
    "a = f(1, 2)\n"
    "b = [3, 4]\n"
    "if c:\n"
    "    d = 5\n"
    "    e = 6\n"
    "g = 7  # pyrefact: ignore\n"
    "h = 8\n"
    "k = 9\n"
)

_C = None


def _cands():
    """name -> (old, new) as yielded by a rule; plus normalised (Range, text) for the model."""
    global _C
    if _C is not None:
        return _C
    from pyrefact import core

    root = ast.parse(BASE)
    stmt_a, stmt_b, if_c, g7, h8, k9 = root.body
    call_f = stmt_a.value
    one = call_f.args[0]
    d5, e6 = if_c.body
    rng = lambda n: core.get_charnos(n, BASE)
    R = core.Range

    def node(src, like=None):
        n = ast.parse(src).body[0]
        if not isinstance(n, ast.stmt) or isinstance(n, ast.Expr):
            n = n.value if isinstance(n, ast.Expr) else n
        if like is not None:
            ast.copy_location(n, like)
        return n

    ins_node = node("M8 = 0", like=stmt_b)  # (None, node): insertion before stmt_b
    ins_node2 = node("M9 = 0", like=d5)  # insertion inside the block
    yielded = {
        "r_stmt_a": (stmt_a, node("M1 = 0")),  # AST -> AST statement
        "r_call_f": (call_f, "M2"),  # AST -> text (expression inside stmt_a)
        "r_one": (rng(one), "M3"),  # Range -> text (constant inside the call)
        "r_stmt_b": (rng(stmt_b), "M4 = 0"),
        "dup_stmt_b": (rng(stmt_b), "M4 = 0"),  # textually identical to r_stmt_b
        "del_d5": (d5, None),  # removal
        "del_e6": (e6, None),  # removal: with del_d5 empties the block
        "r_e6": (e6, node("M5 = 0")),
        "r_g7": (rng(g7), "M6 = 0"),  # touches an ignored line
        "bad_h8": (rng(h8), "((("),  # makes the module invalid
        "r_h8": (h8, "M7 = 0"),
        "ins_b": (None, ins_node),  # insertion (empty range at start of stmt_b)
        "ins_d": (None, ins_node2),  # insertion in an indented block
        "part_ab": (R(rng(stmt_a).end - 3, rng(stmt_b).start + 1), "M10)\nb"),  # partial overlap a/b
        "touch_k": (R(rng(h8).end, rng(k9).start), "\nM11 = 0\n"),  # touches h8 and k9, overlaps neither
    }
    norm = {}
    for name, (old, new) in yielded.items():
        if old is None:
            s = core.get_charnos(new, BASE).start
            r = R(s, s)
        elif isinstance(old, ast.AST):
            r = rng(old)
        else:
            r = R(*old)
        if new is None:
            txt = ""
        elif isinstance(new, ast.AST):
            txt = ast.unparse(new)
            if isinstance(new, ast.stmt) and old is None:
                before = BASE[: r.end]
                last = before.splitlines()[-1] if before and not before.endswith("\n") else ""
                indent = len(last) - len(last.rstrip())
                txt = txt + "\n" + " " * indent
        else:
            txt = new
        norm[name] = (r, txt)
    _C = (yielded, norm)
    return _C


QUICK_NAMES = None


def _names(tier):
    return list(_cands()[0])


def units(tier):
    names = _names(tier)
    maxr = 3 if tier == "quick" else 4
    for size in range(1, maxr + 1):
        for subset in itertools.combinations(names, size):
            if size == 4:
                # thorough: 4-subsets are split by first element of the order to keep units small
                for first in subset:
                    yield {"subset": list(subset), "first": first, "txs": [None, 0]}
            elif size == 3 and tier == "quick":
                yield {"subset": list(subset), "txs": [None, 0]}
            else:
                yield {"subset": list(subset)}


# ------------------------------------------------------------------------------------------------
# reference model


def _ov(a, b):
    return a.start < b.end and b.start < a.end


_IGN = re.compile(r"#\s*pyrefact\s*:\s*(skip_file|ignore)")


def _touches_ignored(r):
    pos = 0
    for line in BASE.splitlines(keepends=True):
        s, e = pos, pos + len(line)
        pos = e
        if r.start < e and s < r.end and _IGN.search(line):
            return True
    return False


def model_schedule(groups):
    """groups: list (per rule) of list of (name, txn|None) in yield order -> accepted [(key, name)]"""
    _, norm = _cands()
    cnt = -100000000
    txns = {}
    for k, g in enumerate(groups):
        for name, t in g:
            cnt += 1
            num = cnt if t is None else t
            txns.setdefault((k, num), []).append(name)
    seen, dropped = [], set()
    for key in sorted(txns):
        tup = tuple(norm[n] for n in txns[key])
        if tup in seen:
            dropped.add(key)
        seen.append(tup)
    accepted = []
    for key in sorted(txns):
        if key in dropped:
            continue
        vals = sorted({norm[n] for n in txns[key]})
        names = []
        for v in vals:  # one representative name per distinct (range, text)
            names.append(next(n for n in txns[key] if norm[n] == v))
        rs = [v[0] for v in vals]
        if any(_touches_ignored(r) for r in rs):
            continue
        if any(_ov(rs[i], rs[j]) for i in range(len(rs)) for j in range(i + 1, len(rs))):
            continue
        if any(_ov(r, norm[n2][0]) for r in rs for _, n2 in accepted):
            continue
        accepted.extend((key, n) for n in names)
    return accepted


def _valid(txt):
    try:
        ast.parse(txt)
        return True
    except SyntaxError:
        return False


def model_apply(accepted):
    """-> (text, rolled_back)"""
    _, norm = _cands()
    txt = BASE
    for r, new in sorted({norm[n] for _, n in accepted}, reverse=True):
        cand = txt[: r.start] + new + txt[r.end :]
        if new == "" and r.start != r.end and not _valid(cand):
            pc = txt[: r.start] + "pass" + txt[r.end :]
            if _valid(pc):
                cand = pc
        txt = cand
    if not _valid(txt):
        return BASE, True
    return txt, False


# ------------------------------------------------------------------------------------------------
# implementation drivers


def _mk_rules(groups):
    yielded, _ = _cands()
    funcs = []
    for k, g in enumerate(groups):
        def mk(g=g, k=k):
            def rule(source):
                if source != BASE:
                    return
                for name, t in g:
                    old, new = yielded[name]
                    if t is None:
                        yield old, new
                    else:
                        yield old, new, t
            rule.__name__ = "rule%d" % k
            return rule
        funcs.append(mk())
    return funcs


def impl_schedule(groups):
    from pyrefact import processing

    _, norm = _cands()
    funcs = [(f, [BASE], {}) for f in _mk_rules(groups)]
    sched = processing._schedule_rewrites(BASE, funcs)
    acc = []
    for t, (rg, r) in sched:
        new = r.new
        cands = [n for k, g in enumerate(groups) if k == t.group_number for n, _ in g
                 if norm[n][0] == tuple(rg) and _same_new(n, new)]
        acc.append(((t.group_number, t.transaction_number), cands[0] if cands else "?"))
    return acc, sched


def _same_new(name, new):
    yielded, norm = _cands()
    ynew = yielded[name][1]
    if isinstance(new, ast.AST):
        return ynew is new
    return (ynew or "") == new if not isinstance(ynew, ast.AST) else False


def _guard(f):
    try:
        return f()
    except Exception as e:  # noqa: BLE001
        return "EXC %s: %s" % (type(e).__name__, str(e)[:80])


MARK = {
    "r_stmt_a": "M1", "r_call_f": "M2", "r_one": "M3", "r_stmt_b": "M4", "dup_stmt_b": "M4",
    "r_e6": "M5", "r_g7": "M6", "r_h8": "M7", "ins_b": "M8", "ins_d": "M9", "part_ab": "M10",
    "touch_k": "M11", "bad_h8": "(((",
}
GONE = {"del_d5": "d = 5", "del_e6": "e = 6"}


def _dump(txt):
    try:
        return ast.dump(ast.parse(txt))
    except SyntaxError:
        return None


def check_schedule(groups, deep=True):
    """-> (violations, info). One schedule on all seams."""
    from pyrefact import processing

    desc = {"groups": groups}
    out = []
    m_acc = model_schedule(groups)
    i_acc, sched = impl_schedule(groups)
    canon = lambda acc: sorted((tuple(k), _cands()[1][n]) for k, n in acc)
    if canon(m_acc) != canon(i_acc):
        out.append(violation(
            "_schedule_rewrites", "accepted_set_differs",
            "model accepts %s, implementation accepts %s" % (sorted(n for _, n in m_acc), sorted(n for _, n in i_acc)),
            desc))
    # pairwise disjointness and all-or-nothing, read off the implementation's own answer
    rngs = [tuple(rg) for _, (rg, _) in sched]
    for i in range(len(rngs)):
        for j in range(i + 1, len(rngs)):
            a, b = rngs[i], rngs[j]
            if a[0] < b[1] and b[0] < a[1]:
                out.append(violation("_schedule_rewrites", "overlapping_rewrites_scheduled", "%s %s" % (a, b), desc))
    m_txt, rolled = model_apply(m_acc)
    acc_names = {n for _, n in m_acc}
    want_marks = set() if rolled else {MARK[n] for n in acc_names if n in MARK}
    want_gone = set() if rolled else {GONE[n] for n in acc_names if n in GONE}
    m_dump = _dump(m_txt)

    def judge(site, res):
        if isinstance(res, str) and res.startswith("EXC "):
            out.append(violation(site, "exception", res, desc))
            return
        if rolled or not m_acc:
            if res != BASE:
                out.append(violation(site, "not_rolled_back" if rolled else "changed_without_accepted_rewrite",
                                     "expected the input text back, got %r" % res[:120], desc))
            return
        got_marks = {m for m in set(MARK.values()) if (m in res if m == "(((" else re.search(r"\b%s\b" % m, res))}
        if got_marks != want_marks:
            out.append(violation(site, "atomicity", "markers applied %s, model %s" % (sorted(got_marks), sorted(want_marks)), desc))
            return
        for g in GONE.values():
            if (g in res) != (g in m_txt):
                out.append(violation(site, "atomicity", "removal of %r: present=%s" % (g, g in res), desc))
                return
        if _dump(res) != m_dump:
            out.append(violation(site, "output_tree_differs", "got %r want %r" % (res[:150], m_txt[:150]), desc))

    res1 = _guard(lambda: processing._apply_rewrites(BASE, sched))
    judge("_apply_rewrites", res1)
    res2 = None
    if deep:
        funcs = _mk_rules(groups)
        res2 = _guard(lambda: processing.chain(funcs)(BASE))
        judge("chain", res2)
        if len(groups) == 1:
            res3 = _guard(lambda: processing.fix(funcs[0])(BASE))
            judge("fix", res3)
    info = {
        "dropped": len({(k, t) for k, g in enumerate(groups) for _, t in g}) and (sum(len(g) for g in groups) - len(m_acc)),
        "applied": len(m_acc),
        "rolled": rolled,
        "outcome": key_of([canon(i_acc), res1 if isinstance(res1, str) else None]),
    }
    return out, info


def _schedules(subset, first=None, txs=(None, 0, 1)):
    size = len(subset)
    for perm in itertools.permutations(subset):
        if first is not None and perm[0] != first:
            continue
        for tx in itertools.product(txs, repeat=size):
            for split in range(1, size + 1):
                g0 = [list(x) for x in zip(perm[:split], tx[:split])]
                g1 = [list(x) for x in zip(perm[split:], tx[split:])]
                yield [g for g in (g0, g1) if g]


def run_unit(unit):
    viol, nontrivial, outcomes = [], [], set()
    n = 0
    stats = {"schedules": 0, "rolled_back": 0, "with_drop": 0, "multi_applied": 0, "public_api_runs": 0}
    sample = None
    for groups in _schedules(unit["subset"], unit.get("first"), tuple(unit.get("txs", (None, 0, 1)))):
        v, info = check_schedule(groups)
        n += 1
        stats["schedules"] += 1
        stats["public_api_runs"] += 1 + (len(groups) == 1)
        stats["rolled_back"] += bool(info["rolled"])
        stats["with_drop"] += info["dropped"] > 0
        stats["multi_applied"] += info["applied"] >= 2
        outcomes.add(info["outcome"])
        if len(unit["subset"]) >= 2 and (info["dropped"] > 0 or info["rolled"] or info["applied"] >= 2):
            nontrivial.append(key_of(groups))
        viol.extend(v)
        if sample is None and info["dropped"] > 0 and info["applied"] >= 1:
            sample = {"groups": groups, "accepted_by_model": [n_ for _, n_ in model_schedule(groups)]}
    return {"n": n, "nontrivial": nontrivial, "viol": viol, "stats": stats,
            "samples": [sample] if sample else [], "extra": sorted(outcomes)}


def replay(desc):
    v, _ = check_schedule(desc["groups"])
    return v


def explain(desc):
    yielded, norm = _cands()
    lines = ["base text:", BASE, "schedule (rule group -> yielded (name, range, new text, txn)):"]
    for k, g in enumerate(desc["groups"]):
        for n, t in g:
            lines.append("  rule%d yields %-10s %s -> %r txn=%s" % (k, n, tuple(norm[n][0]), norm[n][1], t))
    lines.append("model accepts: %s" % [n for _, n in model_schedule(desc["groups"])])
    return "\n".join(lines)


def finish(tier, agg):
    outcomes = set()
    for ex in agg["extra"]:
        outcomes.update(ex)
    return {
        "states": len(outcomes),
        "transitions": agg["stats"]["schedules"],
        "traces_validated_against_impl": agg["stats"]["schedules"],
        "explanation": "states = distinct (accepted rewrite set, output text) outcomes of the real scheduler; "
                       "transitions = schedules executed; every schedule is executed on the real code and compared "
                       "with the reference model (that is the conformance check)",
        "candidates": sorted(_cands()[0]),
    }
