"""C09 - repeated formatting converges and never oscillates (orbit graph of the real transition function)."""
from __future__ import annotations

import os

from mc import boot, corpus, progs
from mc.kernel import key_of, violation
from mc.props import c03

ID = "C09"
LEVEL = "model_checking"
RULE = (
    "state = a text, transition = format_code(., cfg) on the real code; initial states = every atom program (module "
    "context; thorough: all contexts and every ordered pair of core atoms), every construct of the construct corpus, "
    "every repository example and four cascade families (each pass enables the next; n = 3..12, thorough ..30), four layout-sensitive if/else "
    "families whose branches are short / medium / longer than the line limit (3 x 3 sizes), a wrap-window family (a call / list / sum statement of every one-line "
    "width 36..105 (quick: step 3) at nesting depths 0..15 (quick: 7 depths)), under cfg in {default, safe, keep_imports}; from every initial state the orbit x, "
    "F(x), F(F(x)), ... is followed until a text repeats or 6 applications are done. invariant: the orbit reaches a "
    "self-loop within 5 applications (F^5(x) == F^6(x)) and contains no cycle other than the self-loop. non-trivial = "
    "the first application changed the text"
)
ASSUMPTIONS = [
    "a format_code call that raises is C04's business (the orbit is blocked there)",
    "states are deduplicated by exact text; the transition function is deterministic (C06) so one visit per state suffices",
]
CFGS = {"default": {}, "safe": {"safe": True}, "keep_imports": {"keep_imports": True}}


def worker_init():
    progs.worker_setup()


def units(tier):
    for p in progs.program_space("quick"):
        if len(p["atoms"]) == 1 and (p["ctx"] == "module" or tier == "thorough"):
            yield {"ref": ["prog", p]}
        elif len(p["atoms"]) == 2 and tier == "thorough":
            yield {"ref": ["prog", p]}
    for name in CASCADES:
        # sizes beyond 5 passes x 5 applications = 25 matter: a budget of 5 where 25 was meant still converges for n <= 25
        # (sizes 20 and 30 moved into the quick tier after the seeded change C09-first-loop-module-pass-budget)
        for n in (3, 6, 9, 12, 20, 30) if tier == "quick" else (3, 6, 9, 12, 20, 30, 45, 60):
            yield {"ref": ["cascade", name, n]}
    for shape in LAYOUT_SHAPES:
        for n in (1, 3, 6):
            for m in (1, 3, 6):
                yield {"ref": ["layout", shape, n, m]}
    for kind in WRAP_KINDS:
        for depth in (WRAP_DEPTHS_QUICK if tier == "quick" else WRAP_DEPTHS_THOROUGH):
            for width in range(36, 106, 3 if tier == "quick" else 1):
                yield {"ref": ["wrap", kind, depth, width]}
    for n in corpus.CONSTRUCTS:
        yield {"ref": ["construct", n, "alone"]}
    for e in corpus.repo_examples():
        yield {"ref": ["example", e["id"]]}
    if tier == "thorough":
        for f in corpus.stdlib_files():
            yield {"ref": ["stdlib", f]}


CASCADES = {
    # every pass of the rule set enables the next one: these need many passes inside one application
    "unused_chain": lambda n: "def f():\n" + "    a0 = 1\n" + "".join("    a%d = a%d + 1\n" % (i, i - 1) for i in range(1, n)) + "    return 0\nprint(f())\n",
    "unused_function_chain": lambda n: "".join("def g%d():\n    return %s\n" % (i, "g%d()" % (i - 1) if i else "1") for i in range(n)) + "print(0)\n",
    "nested_dead_if": lambda n: "x = 1\n" + "".join("    " * i + "if %s:\n" % ("True" if i % 2 else "1") for i in range(n)) + "    " * n + "x = 2\nprint(x)\n",
    "alias_chain_return": lambda n: "def f(q):\n    a0 = q.compute()\n" + "".join("    a%d = a%d\n" % (i, i - 1) for i in range(1, n)) + "    return a%d\nclass Q:\n    def compute(self):\n        return 7\nprint(f(Q()))\n" % (n - 1),
    "unused_chain_module": lambda n: "a0 = 1\n" + "".join("a%d = a%d * 2\n" % (i, i - 1) for i in range(1, n)) + "print(0)\n",
    "else_return_ladder": lambda n: "def f(c):\n" + "".join("    " * (i + 1) + "if c > %d:\n" % i + "    " * (i + 2) + "return %d\n" % i + "    " * (i + 1) + "else:\n" for i in range(n)) + "    " * (n + 1) + "return -1\nprint(f(2))\n",
}


def _longdict(prefix, n):
    return "{" + ", ".join("'%s_key_number_%d': %s_value_%d" % (prefix, i, prefix, i) for i in range(n)) + "}"


def layout_sensitive(shape, n, m):
    """if/else whose branches are single statements that the line-wrapping stage explodes over several lines
    when they have many items: layout after one application differs from the layout the rules saw (family added
    after the seeded change C09-swap-preference-line-span)."""
    a, b = _longdict("first", n), _longdict("second", m)
    names = ", ".join(["first_value_%d" % i for i in range(n)] + ["second_value_%d" % i for i in range(m)])
    head = "def build(verbose, %s):\n" % names
    if shape == "if_return_return":
        body = "    if verbose:\n        return %s\n    return %s\n" % (a, b)
    elif shape == "if_else_return":
        body = "    if verbose:\n        return %s\n    else:\n        return %s\n" % (a, b)
    elif shape == "loop_continue":
        body = "    out = []\n    for item in (1, 2):\n        if verbose:\n            out.append(%s)\n            continue\n        out.append(%s)\n    return out\n" % (a, b)
    elif shape == "if_else_call":
        body = "    if not verbose:\n        print(%s)\n    else:\n        print(%s)\n    return 0\n" % (a, b)
    else:
        raise ValueError(shape)
    return head + body + "print(build(True, %s))\n" % ", ".join(["0"] * (n + m))


LAYOUT_SHAPES = ["if_return_return", "if_else_return", "loop_continue", "if_else_call"]

# one statement of an exact one-line width at an exact nesting depth (family added after the seeded change
# C09-line-length-nested-pass-rejoins: the line-wrapping stage splits at the limit minus the indentation in one pass and
# re-joins in another; the window depends on both numbers)
WRAP_KINDS = {"call": ("value = compute(", ")"), "list": ("value = [", "]"), "sum": ("value = (", ")")}
WRAP_DEPTHS_QUICK = (0, 4, 8, 10, 11, 12, 14)
WRAP_DEPTHS_THOROUGH = tuple(range(0, 16))


def wrap_window(kind, depth, width):
    head, tail = WRAP_KINDS[kind]
    sep = " + " if kind == "sum" else ", "
    args = []
    while len(head + sep.join(args + ["a%d" % len(args)]) + tail) <= width:
        args.append("a%d" % len(args))
    pad = width - len(head + sep.join(args) + tail)
    if args and pad > 0:
        args[-1] = args[-1] + "x" * pad
    stmt = head + sep.join(args) + tail
    params = ", ".join(args) or "a0"
    body = "".join("    " * (i + 1) + "if flag > %d:\n" % i for i in range(depth))
    ind = "    " * (depth + 1)
    return ("def build(flag, %s):\n    value = None\n" % params + body + ind + stmt + "\n" + ind + "flag += 1\n    return value\n"
            + "print(build(%d, %s))\n" % (depth, ", ".join("1" for _ in (args or [0]))))


def get(ref):
    if ref[0] == "layout":
        return layout_sensitive(ref[1], ref[2], ref[3])
    if ref[0] == "wrap":
        return wrap_window(ref[1], ref[2], ref[3])
    if ref[0] == "cascade":
        return CASCADES[ref[1]](ref[2])
    if ref[0] == "prog":
        return progs.build(ref[1]["atoms"], ref[1]["ctx"])
    return c03.get_input(ref)


def orbit(src, cfg):
    seq = [src]
    for i in range(6):
        boot.clear_caches()
        try:
            nxt = progs.format_code(seq[-1], cfg)
        except BaseException:  # noqa: BLE001
            return seq, "blocked"
        if nxt in seq:
            seq.append(nxt)
            if nxt == seq[-2]:
                return seq, "fixed_point"
            return seq, "cycle"
        seq.append(nxt)
    return seq, "no_fixed_point_within_6"


def check(ref, cname):
    src = get(ref)
    desc = {"ref": ref, "cfg": cname}
    seq, status = orbit(src, CFGS[cname])
    out = []
    steps = len(seq) - 2 if status == "fixed_point" else len(seq) - 1
    if status == "cycle":
        j = seq.index(seq[-1])
        a, b = seq[j], seq[j + 1]
        # which rules undo each other: trace the two transitions of the cycle
        try:
            _, s1 = progs.format_code(a, CFGS[cname], trace=True)
            _, s2 = progs.format_code(b, CFGS[cname], trace=True)
            who = "%s / %s" % (sorted({s[0] for s in s1})[:4], sorted({s[0] for s in s2})[:4])
        except BaseException:  # noqa: BLE001
            who = "?"
        out.append(violation("format_code", "oscillates", "%s cfg=%s: cycle of length %d after %d application(s); stages %s" % (
            ref, cname, len(seq) - 1 - j, j, who), desc))
    elif status == "no_fixed_point_within_6" or (status == "fixed_point" and steps > 5):
        out.append(violation("format_code", "no_fixed_point_within_budget", "%s cfg=%s: still changing after %d applications" % (ref, cname, steps), desc))
    return out, status, steps, seq


def run_unit(unit):
    res = {"n": 0, "nontrivial": [], "viol": [], "stats": {}, "samples": [], "extra": {"states": 0, "transitions": 0}}
    st = res["stats"]
    try:
        src = get(unit["ref"])
    except KeyError:
        return res
    if c03.level(src) < 2 or not src.strip():
        st["initial_state_not_valid_python"] = 1
        res["extra"] = {"states": 0, "transitions": 0}
        return res
    texts = set()
    for cname in CFGS:
        v, status, steps, seq = check(unit["ref"], cname)
        res["n"] += 1
        st["orbit_" + status] = st.get("orbit_" + status, 0) + 1
        if status == "fixed_point":
            st["steps_to_fixed_point_%d" % steps] = st.get("steps_to_fixed_point_%d" % steps, 0) + 1
        res["extra"]["transitions"] += len(seq) - 1
        texts.update(seq)
        if len(seq) > 1 and seq[1] != seq[0]:
            res["nontrivial"].append(key_of([unit["ref"], cname]))
            if not res["samples"] and not v and steps >= 2:
                res["samples"].append({"initial": unit["ref"], "cfg": cname, "applications_until_fixed_point": steps})
        res["viol"].extend(v)
    res["extra"]["states"] = len(texts)
    return res


def replay(desc):
    progs.worker_setup()
    return check(desc["ref"], desc["cfg"])[0]


def explain(desc):
    seq, status = orbit(get(desc["ref"]), CFGS[desc["cfg"]])
    return "\n=====\n".join(seq[:4]) + "\nstatus: " + status


def finish(tier, agg):
    return {
        "states": sum(e["states"] for e in agg["extra"]),
        "transitions": sum(e["transitions"] for e in agg["extra"]),
        "traces_validated_against_impl": agg["n"],
        "explanation": "states = distinct texts reached (per initial state, summed); transitions = format_code applications "
                       "executed; every orbit is an execution of the implementation",
    }
