"""C14 - pattern substitution rewrites exactly the matches and nothing else."""
from __future__ import annotations

import ast
import copy
import itertools
import re

from mc import refmatch
from mc.kernel import key_of, violation

ID = "C14"
LEVEL = "exploration"
RULE = (
    "a case = (pattern, replacement, source, count): 13 patterns with >= 1 wildcard (expression, statement and "
    "statement-sequence patterns) x replacements using each wildcard 0 / 1 / 2 times, the identity replacement, a "
    "reordering and a multi-line statement replacement x 54 sources (no / one / two adjacent / nested / same-line / "
    "indented / multi-line parenthesised / ignore-commented / non-ASCII occurrences, inside comprehensions, methods and "
    "else branches, with multi-line / raw / bytes / f- / concatenated string literals inside the occurrence) x count in {0, 1, 2} through sub() and subn(). oracle: no occurrence (independent reference "
    "finder) => byte-identical; otherwise the output parses and its tree is the source tree with some non-overlapping "
    "subset of the occurrences replaced by the instantiated template (text or tree instantiation), at most `count` of "
    "them, at least one when an admissible one exists; identity replacement preserves the tree; lines touched by no "
    "occurrence are kept byte for byte and in order; ignore-commented lines are kept. non-trivial = at least one occurrence"
)
ASSUMPTIONS = [
    "template instantiation may be textual or tree based (the property admits both readings; precedence capture is counted, not alarmed)",
    "which of several overlapping occurrences is rewritten is not prescribed: any non-overlapping subset is admissible, a partial rewrite is not",
]

PAT_REPL = [
    ("f({{x}})", ["g({{x}})", "f({{x}})", "h({{x}}, {{x}})", "k()", "{{x}} * 2", "({{x}})"]),
    ("{{a}} + {{b}}", ["{{b}} + {{a}}", "add({{a}}, {{b}})", "{{a}} + {{b}}", "{{a}}", "{{a}} + {{a}}"]),
    ("z = {{v}}", ["z = wrap({{v}})", "z = {{v}}", "if c2:\n    z = {{v}}\nelse:\n    z = None", "z: int = {{v}}"]),
    ("{{f}}(a)", ["{{f}}(a, a)", "{{f}}(b)"]),
    ("f({{x}}, {{y}})", ["f({{y}}, {{x}})", "f({{x}})"]),
    ("return {{v}}", ["return ({{v}})", "return wrap({{v}})"]),
    ("if {{c}}:\n    {{b}}", ["if not {{c}}:\n    pass\nelse:\n    {{b}}", "if {{c}}:\n    {{b}}"]),
    ("z = {{v}}\nz = {{w}}", ["z = {{w}}", "z = {{v}}\nz = {{w}}"]),
    ("{{x}}[0]", ["first({{x}})", "{{x}}[0]"]),
    ("[{{e}} for {{i}} in {{it}}]", ["list(map(lambda {{i}}: {{e}}, {{it}}))", "[{{e}} for {{i}} in {{it}}]"]),
    ("{{o}}.m({{x}})", ["m({{o}}, {{x}})", "{{o}}.m({{x}})"]),
    ("not {{x}}", ["neg({{x}})", "not {{x}}"]),
    ("({{e}} for {{i}} in {{it}})", ["({{e}} for {{i}} in sorted({{it}}))", "[{{e}} for {{i}} in {{it}}]", "({{e}} for {{i}} in {{it}})"]),
    # one wildcard used twice: both occurrences must be the same TREE (added after the seeded change C14-constant-consistency-by-value)
    ("{{a}} == {{a}}", ["True", "{{a}} == {{a}}", "same({{a}})"]),
    ("f({{x}}, {{x}})", ["sq({{x}})", "f({{x}}, {{x}})"]),
    ("d[{{k}}] = {{k}}", ["d.add({{k}})"]),
]
SOURCES = [
    "q = 1\n", "f(a)\n", "y = f(a)\n", "f(f(a))\n", "f(a); f(b)\n", "f(a)\nf(b)\n",
    "if c:\n    f(a)\nelse:\n    f(b)\n", "def o():\n    return f(a) + f(b)\n", "y = f(a + b)\n", "y = a + b + c\n",
    "z = f(1 + 2)\n", "f(a)  # pyrefact: ignore\nf(b)\n", "y = [f(i) for i in f(xs)]\n", "y = (\n    f(a)\n    + f(b)\n)\n",
    "z = 1\nz = f(z)\n", "class K:\n    def m(self):\n        z = f(self)\n        return z\n",
    "z = 1\nz = 2\nz = 3\n", "def o():\n    z = a + b\n    return z\n", "y = f(a, b)\n", "y = f(f(a, b), c)\n",
    "if a + b:\n    z = 1\n", "y = xs[0] + ys[0][0]\n", "y = obj.m(a) + obj.m(obj.m(b))\n", "y = not a\nw = not not b\n",
    "s = '\u00e9\u2192'; y = f(a)\n", "# c\u00f6mment\ny = f(a)  # tr\u00e4iling\n", "y = f(a)\n\n\n# keep me\nq = 2\n",
    "y = f(  a  )   # odd spacing\n", "for i in xs:\n    f(i)\nelse:\n    f(0)\n", "y = f(a) if f(b) else f(c)\n",
    "def o():\n    if c:\n        return a + b\n    return f(a)\n", "y = f(\n    a,\n)\n", "z = f(a)  # pyrefact: ignore\nz = f(b)\n",
    "y = [i + 1 for i in xs]\nw = [j for j in [k for k in ys]]\n",
    "f(a)\nf(b)\nf(c)  # pyrefact: ignore\n", "f(a)\nf(b)  # pyrefact: ignore", "z = f(a)\nif c:\n    z = f(b)  # pyrefact: ignore\n",
    "y = (\n    f(a)\n    + f(b)  # pyrefact: ignore\n)\n", "f(a); x = '\x0c'  # pyrefact: ignore\nf(b)\n", "x = '\u2028'; f(a)  # pyrefact: ignore\n",
    "f(a)  # pyrefact: ignore",
    "print(1 == '1', x == x, x == 'x')\n", "y = (a == 'a') or ('a' == \"a\") or (a == a) or (1.0 == 1)\n",
    "y = f(a, 'a') + f(a, a) + f('a', \"a\") + f(None, 'None')\n", "d['k'] = k\nd[k] = k\nd['k'] = 'k'\n",
    "y = sum(i for i in xs)\n", "y = sum((i for i in xs), 0)\n", "y = list(i * 2 for i in xs) + [0]\ng = (j for j in ys)\n",
    # literals inside the matched text whose spelling is restored after the rewrite (added after the seeded change
    # C14-multiline-literal-last-line-indent): multi-line, prefixed, concatenated, at column 0 and indented
    "y = f('''top\nlevel\n  end''')\n",
    "def o():\n    y = f(\"\"\"one\n    two\nthree\"\"\")\n    return y\n",
    "def o():\n    z = \"\"\"a\nb\n  c\"\"\"\n    return z\n",
    "class K:\n    def m(self):\n        return f(f\"\"\"x{self}\n  y\nz\"\"\")\n",
    "def o():\n    z = f('''l1\nl2''') + f(\"\"\"m1\n\nm3\n\"\"\")\n    return z\n",
    "def o():\n    y = f(r\"\\d+\\n\")\n    return y\n",
    "y = f(r'\\n')\nz = f(b'\\x00\\n')\n",
    "def o():\n    z = f('it' \"s\")\n    return f(u'x')\n",
    "def o():\n    return f(R'''a\\n\nb''')\n",
    "def o():\n    if c:\n        z = f(rb'''p\n  q''')\n    return f(f'{a!r:>4}' + '\\t')\n",
]


def units(tier):
    for pi in range(len(PAT_REPL)):
        for si in range(len(SOURCES)):
            yield {"p": pi, "s": si}


def _inst_tree(repl, binds):
    src = repl
    for name in binds:
        src = src.replace("{{" + name + "}}", "W9_" + name + "_")
    body = ast.parse(src).body

    class T(ast.NodeTransformer):
        def visit_Name(self, n):
            m = re.fullmatch(r"W9_(\w+?)_", n.id)
            return copy.deepcopy(binds[m.group(1)]) if m else n

        def visit_Expr(self, n):
            if isinstance(n.value, ast.Name):
                m = re.fullmatch(r"W9_(\w+?)_", n.value.id)
                if m and isinstance(binds[m.group(1)], ast.stmt):
                    return copy.deepcopy(binds[m.group(1)])
            return self.generic_visit(n)

        def visit_arg(self, n):
            m = re.fullmatch(r"W9_(\w+?)_", n.arg)
            if m and isinstance(binds[m.group(1)], ast.Name):
                return ast.arg(arg=binds[m.group(1)].id)
            return n

    return [T().visit(b) for b in body]


def _inst_text(repl, binds):
    src = repl
    for name, node in binds.items():
        src = src.replace("{{" + name + "}}", ast.unparse(node))
    return ast.parse(src).body


def _norm(tree):
    return ast.dump(ast.parse(ast.unparse(ast.fix_missing_locations(tree))))


def _pos(n):
    return (n.lineno, n.col_offset, n.end_lineno, n.end_col_offset, type(n).__name__)


def _offsets(src):
    starts, pos = [], 0
    for line in re.findall(r"[^\n]*\n|[^\n]+$", src):
        starts.append(pos)
        pos += len(line)
    return starts


def _char(src, starts, lineno, col):
    line_start = starts[lineno - 1]
    end = src.find("\n", line_start)
    line = src[line_start : end if end >= 0 else len(src)]
    return line_start + len(line.encode("utf-8")[:col].decode("utf-8"))


def admissible(src, pat, repl, count, occ):
    """-> set of (n_replaced, normalised tree dump)"""
    exp = set()
    idx = range(len(occ))
    starts = _offsets(src)
    spans = [(_char(src, starts, a.lineno, a.col_offset), _char(src, starts, b.end_lineno, b.end_col_offset)) for a, b, _ in occ]
    for r in range(0, len(occ) + 1):
        for sub in itertools.combinations(idx, r):
            if count and len(sub) > count:
                continue
            if any(spans[i][0] < spans[j][1] and spans[j][0] < spans[i][1] for i in sub for j in sub if i < j):
                continue
            for mode in (_inst_tree, _inst_text):
                tree = ast.parse(src)
                single = {}
                seq = {}
                for i in sub:
                    a, b, env = occ[i]
                    binds = {k[5:]: v for k, v in env.items() if k.startswith("node:")}
                    if a is b:
                        single[_pos(a)] = binds
                    else:
                        seq[_pos(a)] = (binds, _pos(b))
                failed = []

                class R(ast.NodeTransformer):
                    def visit(self, n):
                        k = _pos(n) if hasattr(n, "lineno") and hasattr(n, "end_lineno") else None
                        if k in single:
                            try:
                                new = mode(repl, single[k])
                            except SyntaxError:
                                failed.append(1)
                                return n
                            if isinstance(n, ast.expr):
                                if len(new) != 1 or not isinstance(new[0], ast.Expr):
                                    failed.append(1)
                                    return n
                                return new[0].value
                            return new
                        return self.generic_visit(n)

                    def generic_visit(self, n):
                        for f in ("body", "orelse", "finalbody"):
                            body = getattr(n, f, None)
                            if isinstance(body, list) and body and isinstance(body[0], ast.stmt):
                                newbody, i = [], 0
                                while i < len(body):
                                    k = _pos(body[i])
                                    if k in seq:
                                        binds, lastpos = seq[k]
                                        j = i
                                        while _pos(body[j]) != lastpos:
                                            j += 1
                                        try:
                                            newbody.extend(mode(repl, binds))
                                        except SyntaxError:
                                            failed.append(1)
                                            newbody.extend(body[i : j + 1])
                                        i = j + 1
                                    else:
                                        newbody.append(body[i])
                                        i += 1
                                setattr(n, f, newbody)
                        return super().generic_visit(n)

                try:
                    new_tree = R().visit(tree)
                    if failed:
                        continue
                    exp.add((len(sub), _norm(new_tree)))
                except Exception:  # noqa: BLE001
                    pass
    return exp, spans


_IGN = re.compile(r"#\s*pyrefact\s*:\s*(skip_file|ignore)")


def check(pat, repl, src, count, fn):
    from pyrefact import pattern_matching as pm

    desc = {"pattern": pat, "repl": repl, "source": src, "count": count, "fn": fn}
    out = []
    V = lambda kind, what: out.append(violation("pattern_matching." + fn, kind, "%s(%r, %r, %r, count=%d): %s" % (fn, pat, repl, src, count, what), desc))
    tmpl = refmatch.parse_pattern(pat)
    tree = ast.parse(src)
    occ = refmatch.occurrences(tmpl, tree, with_env=True)
    try:
        res = getattr(pm, fn)(pat, repl, src, count=count)
    except Exception as e:  # noqa: BLE001
        V("raised:" + type(e).__name__, str(e)[:80])
        return out, bool(occ)
    n = None
    if fn == "subn":
        res, n = res
    if not occ:
        if res != src:
            V("changed_without_occurrence", "-> %r" % res[:80])
        return out, False
    try:
        got = _norm(ast.parse(res))
    except SyntaxError:
        V("invalid_output", "-> %r" % res[:80])
        return out, True
    exp, spans = admissible(src, pat, repl, count, occ)
    hits = [k for k, d in exp if d == got]
    if not hits:
        V("not_an_admissible_replacement", "-> %r" % res[:120])
        return out, True
    if count and n is not None and n > count:
        V("count_exceeded", "subn reports %d replacements for count=%d" % (n, count))
    if pat == repl and got != _norm(ast.parse(src)):
        V("identity_changes_tree", "-> %r" % res[:80])
    src_lines = re.findall(r"[^\n]*\n|[^\n]+$", src)  # physical lines (a form feed in a literal does not end one)
    # lines touched by no occurrence must survive byte for byte, in order
    pos, keep = 0, []
    for line in src_lines:
        s, e = pos, pos + len(line)
        pos = e
        if not any(a < e and s < b for a, b in spans) and line.strip():
            keep.append(line.rstrip("\n"))
    out_lines = [ln.rstrip("\n") for ln in re.findall(r"[^\n]*\n|[^\n]+$", res)]
    it = iter(out_lines)
    if not all(any(k == o for o in it) for k in keep):
        V("untouched_line_changed", "lines %r not kept in order in %r" % (keep[:3], res[:80]))
    for line in src_lines:
        if _IGN.search(line) and line.rstrip("\n") not in out_lines:
            V("ignored_line_rewritten", "%r -> %r" % (line, res[:80]))
    # something must be replaced when an admissible, non-ignored replacement exists
    if max(hits) == 0 and count == 0:
        ign_spans = []
        pos = 0
        for line in src_lines:
            if _IGN.search(line):
                ign_spans.append((pos, pos + len(line)))
            pos += len(line)
        free = [i for i, (a, b) in enumerate(spans) if not any(a < e and s < b for s, e in ign_spans)]
        nontrivial = any(k >= 1 and d != got for k, d in exp)
        # a pass whose textual splice does not parse is rolled back (C10); only demand a replacement
        # when splicing the instantiated text at some free occurrence gives valid Python
        spliceable = bool(free)
        for i in free:
            a, b, env = occ[i]
            binds = {k[5:]: v for k, v in env.items() if k.startswith("node:")}
            txt = repl
            for name, node in binds.items():
                txt = txt.replace("{{" + name + "}}", ast.unparse(node))
            s0, e0 = spans[i]
            try:
                if "\n" in txt:
                    raise SyntaxError("multi-line replacement: indentation is the tool's business")
                ast.parse(src[:s0] + txt + src[e0:])
            except SyntaxError:
                spliceable = False  # the whole pass is rolled back if one splice does not parse
        if free and nontrivial and spliceable and pat != repl:
            V("nothing_replaced", "occurrences exist and an admissible replacement changes the tree, output == input")
    return out, True


def run_unit(unit):
    res = {"n": 0, "nontrivial": [], "viol": [], "stats": {}, "samples": []}
    pat, repls = PAT_REPL[unit["p"]]
    src = SOURCES[unit["s"]]
    for repl in repls:
        for count in (0, 1, 2):
            for fn in ("sub", "subn"):
                v, nt = check(pat, repl, src, count, fn)
                res["n"] += 1
                if nt:
                    res["nontrivial"].append(key_of([pat, repl, src, count, fn]))
                    if not v and not res["samples"]:
                        res["samples"].append({"pattern": pat, "repl": repl, "source": src, "count": count})
                res["viol"].extend(v)
    return res


def replay(desc):
    return check(desc["pattern"], desc["repl"], desc["source"], desc["count"], desc["fn"])[0]
