"""C06 - results are deterministic across processes, hash seeds and worker schedules."""
from __future__ import annotations

import hashlib
import importlib
import itertools
import json
import os
import shutil
import subprocess
import sys

from mc import boot, corpus, progs, vpool
from mc.kernel import key_of, violation

ID = "C06"
LEVEL = "model_checking"
RULE = (
    "(a) processes / seeds / layouts: every text of the corpus (atom programs in module context, a set-heavy family "
    "built from the places where the code iterates sets, thorough: the repository examples) is formatted in one "
    "fresh process per configuration (PYTHONHASHSEED, node-hash policy): quick seeds {0,1,2,3} under CPython's "
    "address-based node hash plus the three position-based policies under seed 0 (thorough: seeds 0..15 x all 4 "
    "policies); oracle: identical output in every process. (b) pool schedules: directory trees of 2-4 modules "
    "(re-exporting sibling, package with __init__, independent modules, plain pair; thorough: also star-importing sibling "
    "and a 3-module re-export chain) x workers W in {1,2,3} x every assignment of tasks to workers up to symmetry x every "
    "interleaving of the scheduling points (task start and every open() of a tree file) with <= 2 preemptions (quick: <= 1 "
    "for the 3-module trees) x max_passes in {1, 2} (thorough {1, 2, 5}) x every permutation "
    "of the filenames argument (canonical schedule), on the real format_files over a virtual pool with per-worker "
    "caches; reference = the one-worker sequential schedule, cross-checked against a real multiprocessing.Pool(1) in a "
    "fresh process; oracle: final content of every file and the returned report equal the reference; first and last "
    "schedule of every unit are replayed and must reproduce their trace. non-trivial = (a) formatting changed the "
    "text / (b) the schedule deviates from the canonical one"
)
ASSUMPTIONS = [
    "(a) enumerates a declared set of seeds and node-hash policies, not all 2^32 seeds or all set iteration orders",
    "(b) workers interact only through the file system; scheduling points are task start and open() of tree files; "
    "more workers than tasks are idle; starmap assigns tasks to workers in any way (all assignments explored)",
]

POLICIES = ["default", "pos", "desc", "scramble"]

SET_HEAVY = {
    "unused_imports_one_stmt": "import os, sys, re, json, math, glob\nprint(1)\n",
    "unused_imports_many_stmts": "import os\nimport sys\nimport re\nimport json\nimport math\nimport glob\nprint(math.pi)\n",
    "partly_unused_from": "from os import sep, linesep, getcwd, path, name, curdir\nprint(sep, path)\n",
    "unused_names_fn": "def f():\n    aa = 1\n    bb = 2\n    cc = 3\n    dd = 4\n    ee = 5\n    ff = 6\n    return 0\nprint(f())\n",
    "duplicate_functions4": "".join("def fn_%s(x):\n    return x + 1\n" % c for c in "dbca") + "print(fn_a(1), fn_b(1), fn_c(1), fn_d(1))\n",
    "star_imports2": "from os.path import *\nfrom math import *\nprint(floor(1.5), basename('a/b'), sep)\n",
    "renamable6": "aVar = 1\nbVar = 2\ncVar = 3\ndVar = 4\neVar = 5\nfVar = 6\nprint(aVar, bVar, cVar, dVar, eVar, fVar)\n",
    "movable_imports": "def f():\n    import json\n    import re\n    import glob\n    import math\n    return json, re, glob, math\nprint(len(f()))\n",
    "common_head_and_tail": "import random\nc = random.random() < 2\nif c:\n    print(1)\n    x = 1\n    print(2)\nelse:\n    print(1)\n    x = 2\n    print(2)\nprint(x)\n",
    "duplicate_imports": "import os\nimport os\nfrom os import sep\nfrom os import sep, linesep\nimport sys, os\nprint(os, sep, linesep, sys)\n",
    "overused_constants": "".join("print('%s', 'shared constant value', 'another shared constant value')\n" % i for i in range(6)),
    "missing_imports": "def f():\n    return Path('.'), Sequence, np, math, os, sys, re, json\n",
    "unused_functions": "".join("def unused_%s():\n    return %d\n" % (c, i) for i, c in enumerate("fbdace")) + "print(0)\n",
    "dict_set_literals": "a = {3, 1, 2, 1}\nb = {'k': 1, 'j': 2, 'k': 3}\nprint(sorted(a), b)\n",
    "class_members": "class K:\n    bAttr = 1\n    aAttr = 2\n    def zMeth(self):\n        return 1\n    def aMeth(self):\n        return 2\nprint(K().aMeth())\n",
    "missing_typing_names": "def f():\n    return Sequence, Mapping, Iterable, Callable, Optional, Tuple\nprint(f())\n",
    "star_import_many_names": "from os.path import *\nprint(basename('a/b'), dirname('a/b'), join('a', 'b'), sep, splitext('a.b'), exists('zz'))\n",
    "overused_numbered_constants": "".join("print((1, 2, 3, 4, 5, 6, 7, 8, 9, %d), [10, 20, 30, 40, 50, 60, 70, 80], {'k': (100, 200, 300, 400, 500)})\n" % 0 for i in range(6)),
    "overused_three_kinds": "".join("r%d = [(1.5, 2.5, 3.5, 4.5, 5.5, 6.5), (11, 22, 33, 44, 55, 66, 77), 'not-an-identifier string!!', b'bytes literal of some length']\n" % i for i in range(6)) + "print(r0, r5)\n",
    "docstring_missing_imports": '"""Module docstring\n\nspanning several lines.\n"""\ndef f():\n    return os.sep, sys.argv, re.escape("."), json.dumps(1), math.pi, Path(".")\nprint(f())\n',
    "docstring_missing_imports2": '"""Doc\nline two\n"""\nx = 1\ndef f():\n    return functools.partial, itertools.chain, collections.Counter, heapq.heapify, logging.info\nprint(f())\n',
    "preserve_like": "def aaa():\n    return 1\ndef bbb():\n    return 1\ndef ccc():\n    return 1\nprint(aaa(), bbb(), ccc())\n",
}

TREES = {
    "reexport": {"vq_a.py": "from vq_b import getcwd\nprint(getcwd())\n",
                 "vq_b.py": "from os import getcwd\n\n\ndef helper():\n    return 1\n\n\nprint(helper())\n"},
    "star": {"vq_a.py": "from vq_b import *\nprint(sep)\n", "vq_b.py": "from os import sep, linesep\nprint(linesep)\n"},
    "package": {"vq_p/__init__.py": "from vq_p.vq_sub import value\n", "vq_p/vq_sub.py": "value = list()\nunused = 1\n",
                "vq_main.py": "from vq_p import value\nprint(value)\n"},
    "independent3": {"vq_x.py": "import os\nr = list()\nprint(r)\n", "vq_y.py": "import sys\ns = dict()\nprint(s)\n",
                     "vq_z.py": "def f():\n    u = 1\n    return 2\nprint(f())\n"},
    "plain_pair": {"vq_m.py": "xs = list()\nfor i in range(3):\n    xs.append(i)\nprint(xs)\n", "vq_n.py": "import vq_m\nprint(vq_m.xs)\n"},
    "chain3": {"vq_c1.py": "from vq_c2 import sep\nprint(sep)\n", "vq_c2.py": "from vq_c3 import sep\n", "vq_c3.py": "from os import sep\n"},
}


def worker_init():
    progs.worker_setup()


# ------------------------------------------------------------------------------------------------
# (a)

SUB_SNIPPET = (
    "import sys, json, hashlib\n"
    "sys.path.insert(0, %r)\n"
    "from mc import boot\nboot.install()\nfrom mc import progs\nprogs.worker_setup()\n"
    "texts = json.load(open(%r))\nout = {}\n"
    "for k, t in texts.items():\n"
    "    boot.clear_caches()\n"
    "    try:\n        out[k] = progs.format_code(t, {})\n"
    "    except BaseException as e:\n        out[k] = 'EXC:' + type(e).__name__\n"
    "print(json.dumps(out))\n"
)


def corpus_texts(tier):
    out = {}
    for n in progs.ATOMS:
        out["atom:" + n] = progs.build([n], "module")
    for k, v in SET_HEAVY.items():
        out["set:" + k] = v
    if tier == "thorough":
        for e in corpus.repo_examples():
            out["example:" + e["id"]] = e["input"]
    return out


def configs(tier):
    if tier == "quick":
        return [(s, "default") for s in (0, 1, 2, 3)] + [(0, p) for p in POLICIES[1:]]
    return [(s, p) for s in range(16) for p in POLICIES]


def units(tier):
    keys = list(corpus_texts(tier))
    step = 12 if tier == "quick" else 24
    for i in range(0, len(keys), step):
        yield {"t": "seeds", "keys": keys[i : i + step]}
    trees = ["reexport", "package", "independent3", "plain_pair"] if tier == "quick" else list(TREES)
    for tree in trees:
        ntasks = len(TREES[tree])
        for max_passes in ((1, 2) if tier == "quick" else (1, 2, 5)):
            for W in (1, 2, 3):
                for assignment in assignments(ntasks, W):
                    bound = 2 if (ntasks == 2 or tier == "thorough") else 1
                    yield {"t": "pool", "tree": tree, "max_passes": max_passes, "W": W, "assignment": list(assignment), "bound": bound}
        yield {"t": "perm", "tree": tree}


def run_seeds(keys, tier, only=None):
    res = {"n": 0, "nontrivial": [], "viol": [], "stats": {}, "samples": [], "extra": {"states": 0, "transitions": 0, "execs": 0}}
    texts = {k: v for k, v in corpus_texts(tier).items() if k in keys}
    verif = os.path.dirname(os.path.dirname(os.path.dirname(os.path.abspath(__file__))))
    path = os.path.join(os.getcwd(), "c06_texts_%d.json" % os.getpid())
    with open(path, "w") as f:
        json.dump(texts, f)
    outs = {}
    for seed, policy in configs(tier):
        env = dict(os.environ, PYTHONHASHSEED=str(seed), MC_NODEHASH=policy)
        p = subprocess.run([sys.executable, "-c", SUB_SNIPPET % (verif, path)], capture_output=True, text=True, env=env, cwd=os.getcwd(), timeout=1800)
        try:
            outs[(seed, policy)] = json.loads(p.stdout.strip().splitlines()[-1])
        except Exception:  # noqa: BLE001
            raise RuntimeError("subprocess failed: %s" % p.stderr[-600:])
        res["extra"]["execs"] += 1
    os.remove(path)
    ref_cfg = configs(tier)[0]
    for k in texts:
        desc = {"text": k}
        if only and desc != only:
            continue
        res["n"] += len(outs)
        res["extra"]["transitions"] += len(outs)
        distinct = {}
        for cfg, o in outs.items():
            distinct.setdefault(o[k], []).append(cfg)
        res["extra"]["states"] += len(distinct)
        if outs[ref_cfg][k] != texts[k]:
            res["nontrivial"].append(key_of(desc))
        if len(distinct) > 1:
            groups = sorted(distinct.values(), key=len)
            res["viol"].append(violation("format_code", "output_depends_on_hash_seed_or_layout",
                                         "%s: %d different outputs; minority under (seed, node-hash policy) %s" % (k, len(distinct), groups[0][:3]), desc))
        elif not res["samples"] and outs[ref_cfg][k] != texts[k]:
            res["samples"].append({"text": k, "configurations": len(outs), "distinct_outputs": 1})
    return res


# ------------------------------------------------------------------------------------------------
# (b)


def assignments(ntasks, W):
    """Every assignment of tasks to <= W workers up to renaming of workers (restricted growth strings) that
    uses exactly min(W, ...) distinct workers at most; assignments using fewer workers appear under smaller W."""
    out = []

    def rec(prefix, used):
        if len(prefix) == ntasks:
            if used == min(W, ntasks) or (W > ntasks and used == ntasks):
                out.append(tuple(prefix))
            return
        for w in range(min(used + 1, W)):
            rec(prefix + [w], max(used, w + 1))

    rec([], 0)
    return [a for a in out if len(set(a)) == min(W, ntasks)] if W <= ntasks else []


def materialise(tree):
    d = os.path.join(os.getcwd(), "c06_tree")
    if os.path.exists(d):
        shutil.rmtree(d)
    os.makedirs(d)
    for rel, src in TREES[tree].items():
        p = os.path.join(d, rel)
        os.makedirs(os.path.dirname(p), exist_ok=True)
        with open(p, "w") as f:
            f.write(src)
    return d


def _scrub():
    for m in [m for m in sys.modules if m.startswith("vq_")]:
        del sys.modules[m]
    importlib.invalidate_caches()
    sys.path_importer_cache.clear()


def execute(tree, choices, W, assignment, max_passes, order=None):
    d = materialise(tree)
    files = [os.path.join(d, rel) for rel in (order or sorted(TREES[tree]))]
    cwd = os.getcwd()
    os.chdir(d)
    _scrub()
    boot.clear_caches()
    try:
        try:
            result, ex = vpool.run_format_files(d, files, choices, W, assignment, max_passes=max_passes)
        except vpool.ReplayDivergence:
            raise
        except BaseException as e:  # noqa: BLE001
            result, ex = "EXC:" + type(e).__name__, None
    finally:
        os.chdir(cwd)
        _scrub()
    final = tuple((rel, open(os.path.join(d, rel)).read()) for rel in sorted(TREES[tree]))
    return result, final, ex


REAL_POOL_SNIPPET = (
    "import sys, os, json\nsys.path.insert(0, os.environ.get('MC_REPO', '/repo'))\n"
    "import pyrefact.main\nmain = sys.modules['pyrefact.main']\nfrom pyrefact import logs\nlogs.set_level(100)\n"
    "os.chdir(%r)\nfiles = %r\nres = main.format_files(files, n_cores=1, max_passes=%d)\n"
    "print(json.dumps([bool(res), [open(f).read() for f in files]]))\n"
)


def run_pool(tree, max_passes, W, assignment, only=None, bound=2):
    res = {"n": 0, "nontrivial": [], "viol": [], "stats": {}, "samples": [], "extra": {"states": 0, "transitions": 0, "execs": 0}}
    ntasks = len(TREES[tree])
    ref_result, ref_final, _ = execute(tree, [], 1, (0,) * ntasks, max_passes)
    finals = {}
    first = last = None

    def run(prefix):
        r, final, ex = execute(tree, prefix, W, tuple(assignment), max_passes)
        if ex is None:
            raise RuntimeError("format_files raised under the virtual pool: %s" % r)
        ex.result, ex.final = r, final
        return ex

    for prefix, ex in vpool.explore(run, bound=bound):
        res["n"] += 1
        res["extra"]["execs"] += 1
        res["extra"]["transitions"] += len(ex.points)
        sched = [p.chosen for p in ex.points]
        finals.setdefault(ex.final, []).append(sched)
        desc = {"tree": tree, "max_passes": max_passes, "W": W, "assignment": list(assignment), "schedule": sched}
        if first is None:
            first = (sched, ex.trace, ex.final)
        last = (sched, ex.trace, ex.final)
        if any(sched) or W > 1:
            res["nontrivial"].append(key_of(desc))
        if only and desc != only:
            continue
        if ex.final != ref_final or bool(ex.result) != bool(ref_result):
            changed = [rel for (rel, a), (_, b) in zip(ex.final, ref_final) if a != b]
            conflict = _conflict(ex.trace, changed)
            res["viol"].append(violation("format_files", "result_depends_on_schedule",
                                         "tree %s passes=%d W=%d assignment=%s: files %s differ from the sequential result (%s)" % (
                                             tree, max_passes, W, list(assignment), changed, conflict), desc))
    res["extra"]["states"] = len(finals)
    # replay discipline: the first and the last schedule must reproduce their trace and final state
    for sched, trace, final in (first, last):
        r2, final2, ex2 = execute(tree, sched, W, tuple(assignment), max_passes)
        if ex2 is None or ex2.trace != trace or final2 != final:
            raise RuntimeError("replay of schedule %s diverged" % (sched,))
    if not res["samples"]:
        res["samples"].append({"tree": tree, "W": W, "assignment": list(assignment), "max_passes": max_passes,
                               "schedules": res["n"], "distinct_final_states": len(finals), "example_trace": [list(t) for t in last[1][:8]]})
    return res


def _conflict(trace, changed):
    """Name the pair of open() events whose order matters: a write to X by one worker before a read of X by another."""
    for i, ev in enumerate(trace):
        if ev[1] == "open" and ev[3] == "w":
            for later in trace[i + 1 :]:
                if later[1] == "open" and later[3] == "r" and later[2] == ev[2] and later[0] != ev[0]:
                    return "worker %d writes %s before worker %d reads it" % (ev[0], ev[2], later[0])
    return "no write-before-foreign-read pair"


def run_perm(tree):
    """Every permutation of the filenames argument, canonical schedule; plus the real Pool(1) cross-check."""
    res = {"n": 0, "nontrivial": [], "viol": [], "stats": {}, "samples": [], "extra": {"states": 0, "transitions": 0, "execs": 0}}
    names = sorted(TREES[tree])
    ref_result, ref_final, _ = execute(tree, [], 1, (0,) * len(names), 1)
    finals = set()
    for order in itertools.permutations(names):
        r, final, ex = execute(tree, [], 1, (0,) * len(names), 1, order=list(order))
        res["n"] += 1
        res["extra"]["execs"] += 1
        res["extra"]["transitions"] += len(ex.points) if ex else 0
        finals.add(final)
        desc = {"tree": tree, "order": list(order)}
        if list(order) != names:
            res["nontrivial"].append(key_of(desc))
        if final != ref_final or bool(r) != bool(ref_result):
            res["viol"].append(violation("format_files", "result_depends_on_file_order", "tree %s with filenames in order %s differs" % (tree, list(order)), desc))
    for max_passes in (1, 5):
        d = materialise(tree)
        files = [os.path.join(d, rel) for rel in names]
        p = subprocess.run([sys.executable, "-c", REAL_POOL_SNIPPET % (d, files, max_passes)], capture_output=True, text=True,
                           env=dict(os.environ, PYTHONHASHSEED="0"), timeout=600)
        try:
            real = json.loads(p.stdout.strip().splitlines()[-1])
        except Exception:  # noqa: BLE001
            raise RuntimeError("real pool subprocess failed: %s" % p.stderr[-500:])
        r, final, _ = execute(tree, [], 1, (0,) * len(names), max_passes)
        res["n"] += 1
        desc = {"tree": tree, "real_pool_passes": max_passes}
        if [c for _, c in final] != real[1] or bool(r) != real[0]:
            res["viol"].append(violation("virtual_pool", "reference_differs_from_real_pool",
                                         "tree %s passes=%d: sequential virtual-pool run differs from multiprocessing.Pool(1)" % (tree, max_passes), desc))
        else:
            res["nontrivial"].append(key_of(desc))
    res["extra"]["states"] = len(finals)
    res["samples"].append({"tree": tree, "permutations": res["n"] - 2, "real_pool_cross_checks": 2})
    return res


def run_unit(unit):
    tier = os.environ.get("MC_TIER", "quick")
    if unit["t"] == "seeds":
        return run_seeds(unit["keys"], tier)
    if unit["t"] == "pool":
        return run_pool(unit["tree"], unit["max_passes"], unit["W"], unit["assignment"], bound=unit.get("bound", 2))
    return run_perm(unit["tree"])


def replay(desc):
    progs.worker_setup()
    if "text" in desc:
        return run_seeds([desc["text"]], "thorough", only=desc)["viol"]
    if "schedule" in desc:
        r, final, ex = execute(desc["tree"], desc["schedule"], desc["W"], tuple(desc["assignment"]), desc["max_passes"])
        rr, rfinal, _ = execute(desc["tree"], [], 1, (0,) * len(TREES[desc["tree"]]), desc["max_passes"])
        if final != rfinal or bool(r) != bool(rr):
            return [violation("format_files", "result_depends_on_schedule", "reproduced", desc)]
        return []
    return [v for v in run_perm(desc["tree"])["viol"] if v["desc"] == desc]


def explain(desc):
    if "schedule" in desc:
        r, final, ex = execute(desc["tree"], desc["schedule"], desc["W"], tuple(desc["assignment"]), desc["max_passes"])
        return "trace: %s\nfinal: %s" % (ex.trace, dict(final))
    return ""


def finish(tier, agg):
    return {
        "states": sum(e["states"] for e in agg["extra"]),
        "transitions": sum(e["transitions"] for e in agg["extra"]),
        "traces_validated_against_impl": sum(e["execs"] for e in agg["extra"]),
        "explanation": "(b) states = distinct final directory states per (tree, W, assignment, passes) unit, summed; transitions = "
                       "scheduling points executed; every schedule is an execution of the real format_files; (a) states = distinct "
                       "outputs per text, transitions = format_code runs in fresh processes",
        "preemption_bound_completed": 2,
    }
