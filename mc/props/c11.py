"""C11 - layout stages never change program structure or string contents."""
from __future__ import annotations

import ast
import itertools
import os

from mc import boot, progs
from mc.kernel import key_of, violation

ID = "C11"
LEVEL = "exploration"
RULE = (
    "literal programs: every body of <= 3 lines over {a, empty, # c}, every body of <= 5 lines over {a, empty}, and each "
    "dirty line (2 blanks, TAB a, a + 2 blanks, a TAB) alone and in every position of a short body x literal kind (''' / \"\"\" / r''' / b''' / f'''..{v}..''' / implicit "
    "concatenation / single line with escapes) x position (module assignment, inside a function, call argument, on a "
    "line longer than the limit, docstring) x max_line_length in {60, 100}; import layouts: every sequence of <= 4 "
    "(quick 3) items over {stdlib import, third-party import, from import, def, class, assignment, comment} x 0-3 blank "
    "lines between items; nested-blank layouts: 9 code shapes with a run of 0-6 blank lines (empty or indented) inside "
    "indented code; twin literals: 10 plain spellings x 14 f-string / %-format forms carrying the same text as a segment, format "
    "spec or nested literal x 4 layouts. stage level: expandtabs(4), rmspace.format_str, fix_too_many_blank_lines, fix_line_lengths, "
    "fix_import_spacing called directly (sort_imports reorders statements and is not a layout stage): ast.dump(parse(out)) == ast.dump(parse(in)) with docstring "
    "whitespace normalised; minimize_whitespace_line_differences(a, b) over pairs where b is a after one edit from a "
    "menu: result tree == tree of b. pipeline level: inert programs 'w = <literal>; print(repr(w))' through format_code "
    "with the execution oracle, and programs in which a rewrite moves / rewrites a statement containing each literal "
    "kind. non-trivial = the stage changed the text"
)
RULE += (" head family: statements whose first identifier starts with a keyword (every hard and soft keyword x suffixes _x / s) x 5 statement forms x 5 positions x 6 stages.")
ASSUMPTIONS = [
    "whitespace inside docstrings is normalised before trees are compared (tolerated by the property)",
    "stages that raise are C04's business (blocked here)",
]

LINES = ["a", "", "  ", "\ta", "a  ", "a\t", "# c"]
KINDS = {
    "sq3": lambda b: "'''" + b + "'''",
    "dq3": lambda b: '"""' + b + '"""',
    "raw3": lambda b: "r'''" + b + "'''",
    "bytes3": lambda b: "b'''" + b + "'''",
    "f3": lambda b: "f'''{v}" + b + "{v!r}'''",
    "concat": lambda b: "(" + " ".join(repr(ln + "\n") for ln in b.split("\n")) + ")",
    "escaped": lambda b: repr(b),
}
LONG = "some_function_name(argument_one, argument_two) + another_function_name(argument_three, argument_four) + "
POSITIONS = {
    "module": "v = 1\nw = {lit}\nprint(repr(w))\n",
    "function": "v = 1\ndef g():\n    w = {lit}\n    return w\nprint(repr(g()))\n",
    "call_arg": "v = 1\nprint(repr(str({lit})), len([{lit}]))\n",
    "long_line": "v = 1\nsome_function_name = another_function_name = lambda *a: ''\nw = " + LONG + "{lit}\nprint(repr(w))\n",
    "docstring": "v = 1\ndef g():\n    {lit}\n    return g.__doc__\nprint(repr(g()))\n",
}


CLEAN_LINES = ["a", "", "# c"]
DIRTY_LINES = ["  ", "\ta", "a  ", "a\t"]


def bodies():
    """Clean alphabet exhaustively; every 'dirty' line (tab / trailing blanks / blanks only - the features the
    text-level stages are known to damage, see the known findings) alone and in each position of a 2-line body."""
    seen = set()

    def emit(b):
        if b not in seen:
            seen.add(b)
            return True
        return False

    for n in (1, 2, 3):
        for seq in itertools.product(CLEAN_LINES, repeat=n):
            b = "\n".join(seq)
            if emit(b):
                yield b
    for n in (4, 5):
        for seq in itertools.product(["a", ""], repeat=n):
            b = "\n".join(seq)
            if emit(b):
                yield b
    for d in DIRTY_LINES:
        for b in (d, d + "\na", "a\n" + d, d + "\n", "\n" + d, "a\n" + d + "\na"):
            if emit(b):
                yield b


def feats(body):
    f = []
    lines = body.split("\n")
    if "\t" in body:
        f.append("tab")
    if any(ln.endswith((" ", "\t")) and ln.strip() for ln in lines):
        f.append("trailing_ws")
    if any(ln != "" and not ln.strip() for ln in lines):
        f.append("ws_only_line")
    run = best = 0
    for ln in lines[1:-1] if len(lines) > 2 else []:
        run = run + 1 if not ln.strip() else 0
        best = max(best, run)
    if best >= 2:
        f.append("blank_run")
    elif best == 1:
        f.append("blank_line")
    return "+".join(f) or "plain"


ITEMS = {
    "std": "import os\n", "third": "import numpy\n", "from": "from sys import path\n", "def": "def f():\n    return 1\n",
    "class": "class C:\n    x = 1\n", "assign": "y = 2\n", "comment": "# note\n",
}


NESTED_BLANKS = {
    # blank-line runs INSIDE indented code (added after the seeded change C11-blank-line-regex-eats-indent)
    "class_attr_then_method": "class C:\n    x = 1\n{B}    def m(self):\n        return self.x\n",
    "loop_body_last_stmt": "def f(xs):\n    for x in xs:\n        print(x)\n{B}        print(-x)\n    return 0\n",
    "after_def_line": "def f():\n{B}    return 1\n",
    "between_methods_nested": "class A:\n    class B:\n        def m(self):\n            return 1\n{B}        def n(self):\n            return 2\n",
    "if_else_branches": "if c:\n    a = 1\n{B}    b = 2\nelse:\n{B}    a = 3\n",
    "before_dedent": "def f():\n    x = 1\n{B}y = 2\n",
    "after_comment": "def f():\n    x = 1\n{B}    # comment\n{B}    return x\n",
    "in_parenthesised_expr": "value = (\n    1 +\n{B}    2\n)\n",
    "try_finally": "try:\n    a = 1\n{B}finally:\n{B}    b = 2\n",
}


def stage_fn(name):
    import rmspace
    from pyrefact import fixes

    return {
        "expandtabs": lambda s: s.expandtabs(4),
        "rmspace": rmspace.format_str,
        "blank_lines": fixes.fix_too_many_blank_lines,
        "line_lengths_100": lambda s: fixes.fix_line_lengths(s, max_line_length=100),
        "line_lengths_60": lambda s: fixes.fix_line_lengths(s, max_line_length=60),
        "import_spacing": fixes.fix_import_spacing,
        "sort_imports": fixes.sort_imports,
    }[name]


LITERAL_STAGES = ["expandtabs", "rmspace", "blank_lines", "line_lengths_100", "line_lengths_60", "import_spacing"]
IMPORT_STAGES = ["import_spacing", "blank_lines", "rmspace", "line_lengths_100"]
EDITS = ["blank_line_added_in_literal", "blank_line_removed_in_literal", "continuation_reindented", "trailing_blanks_added",
         "blank_line_added_between_statements", "statement_replaced"]


# a plain literal and an f-string (segment, format spec, nested literal) with the same text in one file (family added
# after the seeded change C11-restore-strings-into-fstring-segments: restoring "the original spelling" of a string
# value hit the f-string's pieces, which are not literals of their own)
TWIN_PLAIN = ["'ms'", '"ms"', "'''ms'''", "r'ms'", "'d'", "'>4'", "'e'", "b'ms'", "'ms' 'ms'", "'{e}ms'"]
TWIN_FSTR = ["f'{e}ms'", 'f"{e}ms"', "f'{e:d}'", "f'{e:>4}'", "f'ms{e}'", "f'{e!r}ms{e}d'", "f'''{e}\nms'''", "f'{\"ms\"}{e}'",
             "'%s ms' % e", "f'{e:{w}d}'", "f'{e}' 'ms'", "rf'{e}ms'", "f'{{e}}ms{e}'", "f'{e:>4}' f'{e}ms'"]
TWIN_LAYOUTS = {
    "module": "e = 12\nw = 3\nunit = {P}\nprint({F}, unit)\n",
    "function": "def show(e, w=3):\n    unit = {P}\n    return {F}, unit\nprint(show(12))\n",
    "same_statement": "e = 12\nw = 3\nprint({F}, {P}, {F})\n",
    "long_line": "e = 12\nw = 3\nprint({P}, {F}, 'padding padding padding padding', 'padding padding padding padding', 'padding padding')\n",
}


# statements whose first identifier starts with a keyword (family added after the seeded change
# C11-elif-prefix-word-boundary: the wrapping stage strips "el" from a leading "elif" and puts it back by regex)
HEAD_FORMS = {
    "assign": "{id} = 1\n",
    "call": "{id}(1)\n",
    "attr_call": "{id}.add(other_value)\n",
    "long_assign": "{id} = some_function_name(argument_one, argument_two) + another_function_name(argument_three, argument_four) + tail_value\n",
    "subscript_aug": "{id}[0] += 1\n",
}
HEAD_POSITIONS = {
    "module": "{S}",
    "def_body": "def f():\n    {S}",
    "after_if_block": "if cond:\n    pass\n{S}",
    "in_else": "if cond:\n    pass\nelse:\n    {S}",
    "class_body": "class K:\n    {S}",
}


def head_identifiers():
    import keyword

    for kw in keyword.kwlist + keyword.softkwlist:
        for suffix in ("_x", "s"):
            ident = kw + suffix
            if not keyword.iskeyword(ident):
                yield ident


def units(tier):
    for ident in head_identifiers():
        yield {"t": "heads", "ident": ident}
    for kind in KINDS:
        for pos in POSITIONS:
            yield {"t": "literal", "kind": kind, "pos": pos}
    for pl in TWIN_PLAIN:
        yield {"t": "twins", "plain": pl}
    items = list(ITEMS)
    nmax = 3 if tier == "quick" else 4
    for first in items:
        yield {"t": "imports", "first": first, "nmax": nmax}
    for name in NESTED_BLANKS:
        yield {"t": "nested_blanks", "name": name}
    for kind in KINDS:
        yield {"t": "minimize", "kind": kind}
    for kind in KINDS:
        yield {"t": "pipeline", "kind": kind}


def norm_dump(src):
    tree = ast.parse(src)
    for node in ast.walk(tree):
        if isinstance(node, (ast.FunctionDef, ast.AsyncFunctionDef, ast.ClassDef, ast.Module)) and node.body:
            first = node.body[0]
            if isinstance(first, ast.Expr) and isinstance(first.value, ast.Constant) and isinstance(first.value.value, str):
                first.value.value = " ".join(first.value.value.split())
    return ast.dump(tree)


def check_stage(stage, src, desc, tag):
    try:
        t0 = norm_dump(src)
    except (SyntaxError, ValueError):
        return [], "invalid_input"
    boot.clear_caches()
    try:
        out = stage_fn(stage)(src)
    except BaseException:  # noqa: BLE001
        return [], "blocked"
    if out == src:
        return [], "unchanged"
    try:
        same = norm_dump(out) == t0
        why = "tree_changed"
    except (SyntaxError, ValueError):
        same, why = False, "invalid_output"
    if same:
        return [], "changed"
    return [violation(stage, "%s[%s]" % (why, tag), "%s on %s" % (stage, {k: v for k, v in desc.items() if k != "stage"}), desc)], "changed"


def literal_source(kind, pos, body):
    return POSITIONS[pos].replace("{lit}", KINDS[kind](body))


def run_literal(kind, pos, only=None):
    res = {"n": 0, "nontrivial": [], "viol": [], "stats": {}, "samples": []}
    for body in bodies():
        src = literal_source(kind, pos, body)
        tag = feats(body)
        for stage in LITERAL_STAGES:
            desc = {"kind": kind, "pos": pos, "body": body, "stage": stage}
            if only and desc != only:
                continue
            v, status = check_stage(stage, src, desc, tag)
            if status == "invalid_input":
                break
            res["n"] += 1
            res["stats"][status] = res["stats"].get(status, 0) + 1
            if status == "changed":
                res["nontrivial"].append(key_of(desc))
                if not v and not res["samples"]:
                    res["samples"].append(desc)
            res["viol"].extend(v)
    return res


def run_twins(plain, only=None):
    res = {"n": 0, "nontrivial": [], "viol": [], "stats": {}, "samples": []}
    for fs in TWIN_FSTR:
        for lname, layout in TWIN_LAYOUTS.items():
            src = layout.replace("{P}", plain).replace("{F}", fs)
            for stage in LITERAL_STAGES:
                desc = {"plain": plain, "fstring": fs, "twin_layout": lname, "stage": stage}
                if only and desc != only:
                    continue
                v, status = check_stage(stage, src, desc, "twin_literals")
                if status == "invalid_input":
                    break
                res["n"] += 1
                res["stats"][status] = res["stats"].get(status, 0) + 1
                if status == "changed":
                    res["nontrivial"].append(key_of(desc))
                    if not v and not res["samples"]:
                        res["samples"].append(desc)
                res["viol"].extend(v)
    return res


def import_layouts(first, nmax):
    items = list(ITEMS)
    for n in range(1, nmax + 1):
        for rest in itertools.product(items, repeat=n - 1):
            seq = (first,) + rest
            for blanks in (0, 1, 2, 3):
                yield seq, blanks


def layout_source(seq, blanks):
    return ("\n" * blanks).join(ITEMS[i] for i in seq)


def run_imports(first, nmax, only=None):
    res = {"n": 0, "nontrivial": [], "viol": [], "stats": {}, "samples": []}
    for seq, blanks in import_layouts(first, nmax):
        src = layout_source(seq, blanks)
        for stage in IMPORT_STAGES:
            desc = {"layout": list(seq), "blanks": blanks, "stage": stage}
            if only and desc != only:
                continue
            v, status = check_stage(stage, src, desc, "layout")
            res["n"] += 1
            res["stats"][status] = res["stats"].get(status, 0) + 1
            if status == "changed":
                res["nontrivial"].append(key_of(desc))
                if not v and not res["samples"]:
                    res["samples"].append(desc)
            res["viol"].extend(v)
    return res


def run_nested_blanks(name, only=None):
    res = {"n": 0, "nontrivial": [], "viol": [], "stats": {}, "samples": []}
    for k in range(0, 7):
        for ws in ("", "    "):  # truly empty blank lines, or blank lines carrying indentation
            src = NESTED_BLANKS[name].replace("{B}", (ws + "\n") * k)
            for stage in ["blank_lines", "rmspace", "line_lengths_100", "line_lengths_60", "import_spacing", "expandtabs"]:
                desc = {"nested_blanks": name, "k": k, "ws": ws, "stage": stage}
                if only and desc != only:
                    continue
                if stage == "format_code_layout":
                    v, status = _check_pipeline_layout(src, desc)
                else:
                    v, status = check_stage(stage, src, desc, "blank_run_in_code")
                res["n"] += 1
                res["stats"][status] = res["stats"].get(status, 0) + 1
                if status == "changed":
                    res["nontrivial"].append(key_of(desc))
                    if not v and not res["samples"]:
                        res["samples"].append(desc)
                res["viol"].extend(v)
    return res


def run_heads(ident, only=None):
    res = {"n": 0, "nontrivial": [], "viol": [], "stats": {}, "samples": []}
    for form, tmpl in HEAD_FORMS.items():
        for pos, ptmpl in HEAD_POSITIONS.items():
            src = ptmpl.replace("{S}", tmpl.replace("{id}", ident))
            for stage in LITERAL_STAGES:
                desc = {"head": ident, "form": form, "hpos": pos, "stage": stage}
                if only and desc != only:
                    continue
                v, status = check_stage(stage, src, desc, "keyword_prefixed_identifier")
                res["n"] += 1
                res["stats"][status] = res["stats"].get(status, 0) + 1
                if status == "changed":
                    res["nontrivial"].append(key_of(desc))
                    if not v and not res["samples"]:
                        res["samples"].append(desc)
                res["viol"].extend(v)
    return res


def _check_pipeline_layout(src, desc):
    """format_code on code where (apart from unused-name handling) only layout stages act: the sequence of
    statement KINDS and nesting must survive (names may be renamed by other rules, so compare tree shape)."""
    def shape(text):
        def rec(n):
            return (type(n).__name__, tuple(rec(c) for c in ast.iter_child_nodes(n) if isinstance(c, ast.stmt)))
        return rec(ast.parse(text))
    try:
        s0 = shape(src)
    except (SyntaxError, ValueError):
        return [], "invalid_input"
    boot.clear_caches()
    try:
        out = progs.format_code(src, {"safe": True})
    except BaseException:  # noqa: BLE001
        return [], "blocked"
    if out == src:
        return [], "unchanged"
    try:
        same = shape(out) == s0
        why = "statement_nesting_changed"
    except (SyntaxError, ValueError):
        same, why = False, "invalid_output"
    if same:
        return [], "changed"
    return [violation("format_code(safe)", "%s[blank_run_in_code]" % why, "format_code(safe=True) on %s" % desc, desc)], "changed"


def edited(kind, body, edit):
    """(a, b): b is a after one edit."""
    a = POSITIONS["function"].replace("{lit}", KINDS[kind](body))
    lines = a.split("\n")
    lit_rows = [i for i, ln in enumerate(lines) if i >= 2 and not ln.startswith(("    return", "print", "v ="))]
    if edit == "blank_line_added_in_literal":
        kb = body + "\n\nz"
        return a, POSITIONS["function"].replace("{lit}", KINDS[kind](kb))
    if edit == "blank_line_removed_in_literal":
        kb = body.replace("\n\n", "\n", 1)
        return a, POSITIONS["function"].replace("{lit}", KINDS[kind](kb))
    if edit == "continuation_reindented":
        return a, POSITIONS["function"].replace("{lit}", KINDS[kind](body.replace("\n", "\n    ")))
    if edit == "trailing_blanks_added":
        return a, POSITIONS["function"].replace("{lit}", KINDS[kind](body.replace("\n", "  \n", 1) + "  "))
    if edit == "blank_line_added_between_statements":
        return a, a.replace("def g():", "\n\ndef g():")
    if edit == "statement_replaced":
        return a, a.replace("v = 1", "v = 1 + 1")
    raise ValueError(edit)


def run_minimize(kind, only=None):
    from pyrefact import processing

    res = {"n": 0, "nontrivial": [], "viol": [], "stats": {}, "samples": []}
    for body in bodies():
        if body.count("\n") > 2:
            continue
        for edit in EDITS:
            desc = {"kind": kind, "body": body, "edit": edit}
            if only and desc != only:
                continue
            a, b = edited(kind, body, edit)
            try:
                ast.parse(a)
                tb = ast.dump(ast.parse(b))
            except (SyntaxError, ValueError):
                continue
            if a == b:
                continue
            res["n"] += 1
            try:
                out = processing.minimize_whitespace_line_differences(a, b)[0]
            except BaseException:  # noqa: BLE001
                res["stats"]["blocked"] = res["stats"].get("blocked", 0) + 1
                continue
            if out != b:
                res["nontrivial"].append(key_of(desc))
            try:
                same = ast.dump(ast.parse(out)) == tb
                why = "tree_changed"
            except (SyntaxError, ValueError):
                same, why = False, "invalid_output"
            if not same:
                res["viol"].append(violation("minimize_whitespace_line_differences", "%s[%s;%s]" % (why, edit, feats(body)),
                                             "minimize_whitespace_line_differences(a, b) is not b's tree: %s" % desc, desc))
            elif not res["samples"] and out != b:
                res["samples"].append(desc)
    return res


MOVERS = {
    # a rewrite moves / rewrites the statement that contains the literal (exercises _substitute_original_strings/_fstrings)
    "common_tail": "v = 1\nif v:\n    x = 1\n    w = {lit}\nelse:\n    x = 2\n    w = {lit}\nprint(repr(w), x)\n",
    "loop_invariant": "v = 1\nr = []\nfor i in range(2):\n    w = {lit}\n    r.append(w)\nprint(repr(r))\n",
    "list_append": "v = 1\nr = []\nr.append({lit})\nprint(repr(r))\n",
    "early_return": "v = 1\ndef g(c):\n    if c:\n        w = {lit}\n    else:\n        w = ''\n    return w\nprint(repr(g(1)), repr(g(0)))\n",
}


def run_pipeline(kind, only=None):
    res = {"n": 0, "nontrivial": [], "viol": [], "stats": {}, "samples": []}
    shapes = {"inert_module": POSITIONS["module"], "inert_function": POSITIONS["function"], **MOVERS}
    for body in bodies():
        if body.count("\n") > 3:
            continue
        for sname, tmpl in shapes.items():
            for mll in (100, 60):
                desc = {"kind": kind, "shape": sname, "body": body, "mll": mll}
                if only and desc != only:
                    continue
                if sname.startswith("inert") is False and (mll == 60 or body.count("\n") > 1):
                    continue
                src = tmpl.replace("{lit}", KINDS[kind](body))
                orig = progs.run_prog(src)
                if orig[0] != "ok":
                    continue
                res["n"] += 1
                boot.clear_caches()
                try:
                    out = progs.format_code(src, {"mll": mll})
                except BaseException:  # noqa: BLE001
                    res["stats"]["blocked_by_C04"] = res["stats"].get("blocked_by_C04", 0) + 1
                    continue
                if out == src:
                    continue
                res["nontrivial"].append(key_of(desc))
                c = progs.compare(orig, out)
                if c is not None:
                    site, _ = progs.culprit(src, {"mll": mll}, orig)
                    res["viol"].append(violation(site, "%s[%s]" % ("literal_value_changed" if c[0] == "stdout_diff" else c[0], feats(body)),
                                                 "format_code changed what the program prints: %s: %s" % (desc, c[1]), desc))
                elif not res["samples"]:
                    res["samples"].append(desc)
    return res


def run_unit(unit):
    t = unit["t"]
    if t == "heads":
        return run_heads(unit["ident"])
    if t == "literal":
        return run_literal(unit["kind"], unit["pos"])
    if t == "twins":
        return run_twins(unit["plain"])
    if t == "imports":
        return run_imports(unit["first"], unit["nmax"])
    if t == "nested_blanks":
        return run_nested_blanks(unit["name"])
    if t == "minimize":
        return run_minimize(unit["kind"])
    return run_pipeline(unit["kind"])


def replay(desc):
    progs.worker_setup()
    if "head" in desc:
        return run_heads(desc["head"], only=desc)["viol"]
    if "nested_blanks" in desc:
        return run_nested_blanks(desc["nested_blanks"], only=desc)["viol"]
    if "twin_layout" in desc:
        return run_twins(desc["plain"], only=desc)["viol"]
    if "layout" in desc:
        return run_imports(desc["layout"][0], 4, only=desc)["viol"]
    if "edit" in desc:
        return run_minimize(desc["kind"], only=desc)["viol"]
    if "shape" in desc:
        return run_pipeline(desc["kind"], only=desc)["viol"]
    return run_literal(desc["kind"], desc["pos"], only=desc)["viol"]


def explain(desc):
    if "head" in desc:
        return HEAD_POSITIONS[desc["hpos"]].replace("{S}", HEAD_FORMS[desc["form"]].replace("{id}", desc["head"]))
    if "twin_layout" in desc:
        return TWIN_LAYOUTS[desc["twin_layout"]].replace("{P}", desc["plain"]).replace("{F}", desc["fstring"])
    if "layout" in desc:
        return layout_source(desc["layout"], desc["blanks"])
    if "pos" in desc:
        return literal_source(desc["kind"], desc["pos"], desc["body"])
    return ""
