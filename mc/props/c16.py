"""C16 - code is treated as unreachable or pointless only when it really is (statement shapes x all valuations)."""
from __future__ import annotations

import ast
import os
import textwrap

from mc import boot, progs
from mc.kernel import key_of, violation

ID = "C16"
LEVEL = "exploration"
RULE = (
    "shapes: level 0 = 7 leaves (observable print, pass, return, raise, assert C, break, continue); a body is one "
    "statement or 'observable; statement'; level 1 = every compound (if C: B [else: L], while C: B [else: L], for v in "
    "I: B [else: L], with cm(): B, try: B except E: L [finally: L]) over level-0 bodies, C in {True, False, 0, 1, p, not "
    "p, q}, I in {(), (1,), range(2), xs}; level 2 = every compound whose body is one level-1 shape and whose else is "
    "absent or an observable (quick: outer C in {True, p}, I = xs; thorough: all C and I and bodies "
    "'observable; shape'); level 3 = guarded exits: every loop kind whose body is [if C: L1 [else: L3]; L2] "
    "over all loop leaves L1, L2, with and without a loop else; each shape is followed by an observable statement inside def f(p, q, xs) and run under all 8 "
    "valuations with exceptions printed; level 4 = for loops over 30 iterables of every kind the constant evaluator may know (empty / non-empty containers, lazy iterators, non-iterables) and with blocks over 5 context managers (exception-swallowing ones included) x raising / returning bodies; shapes whose original does not terminate are dropped (counted). pointless "
    "family: 70 expression statements (incl. every part of a slice) and 20 raising statements x 7 nestings below a try body; originally 48 expression statements (pure / user call / unknown name / call hidden in comprehension, conditional "
    "expression, f-string, subscript, attribute, default argument / raising builtin call inside try). callable family: a bare "
    "call cb() where cb is one of 17 user definitions (pure / printing / raising / effect after an if-return / class with "
    "and without a printing (inherited) __init__ / lambda / alias of print / generator) x 18 ways the name is also bound "
    "elsewhere (module or local assignment, nested in if / try, for / with / walrus / tuple target, second def, global in "
    "a function, import, comprehension, parameter, lambda parameter). oracle 1: "
    "core.is_blocking(stmt) true => the following statement is reached in no valuation; core.has_side_effect false => "
    "deleting the statement changes no output. oracle 2: nine consumer rules (and format_code on level 1) + execution. "
    "non-trivial = an analysis answered blocking / side-effect free, or a consumer changed the text"
)
ASSUMPTIONS = [
    "the analyses may be conservative: only is_blocking == True and has_side_effect == False carry an obligation",
    "step budget: an original that needs more than 0.3 s under the driver is outside the property's class",
]

CONDS = ["True", "False", "0", "1", "p", "not p", "q"]
ITERS = ["()", "(1,)", "range(2)", "xs"]
LEAVES = ['print("o")', "pass", "return 1", 'raise E("r")', "assert p"]
LOOP_LEAVES = ["break", "continue"]
CONSUMERS = ["fixes.delete_unreachable_code", "fixes.delete_pointless_statements", "fixes.remove_redundant_else",
             "fixes.swap_if_else", "fixes.breakout_common_code_in_ifs", "fixes.remove_dead_ifs", "fixes.early_return",
             "fixes.early_continue", "fixes.move_before_loop"]

PRE = '''import contextlib
LOG = []
def note(x):
    LOG.append(x)
    return x
class E(Exception): pass
@contextlib.contextmanager
def cm():
    yield
'''
DRV = '''
for p in (False, True):
    for q in (False, True):
        for xs in ((), (1, 2)):
            try:
                print(p, q, len(xs), f(p, q, xs))
            except E as e:
                print(p, q, len(xs), "E", e)
            except AssertionError:
                print(p, q, len(xs), "A")
            except Exception as e:
                print(p, q, len(xs), type(e).__name__)
print(LOG)
'''


def ind(s, k=4):
    return textwrap.indent(s, " " * k)


def leaves(in_loop):
    return LEAVES + (LOOP_LEAVES if in_loop else [])


def bodies0(in_loop):
    ls = leaves(in_loop)
    return ls + ['print("b")\n' + s for s in ls if s != 'print("o")']


def compounds(body_fn, else_opts, in_loop, conds=CONDS, iters=ITERS):
    """Every compound statement over the given bodies. body_fn(in_loop) -> list of body texts."""
    for c in conds:
        for b in body_fn(in_loop):
            yield "if %s:\n%s" % (c, ind(b))
            for e in else_opts(in_loop):
                yield "if %s:\n%s\nelse:\n%s" % (c, ind(b), ind(e))
    for c in conds:
        for b in body_fn(True):
            yield "while %s:\n%s" % (c, ind(b))
            for e in else_opts(in_loop):
                yield "while %s:\n%s\nelse:\n%s" % (c, ind(b), ind(e))
    for it in iters:
        for b in body_fn(True):
            yield "for v in %s:\n%s" % (it, ind(b))
            for e in else_opts(in_loop):
                yield "for v in %s:\n%s\nelse:\n%s" % (it, ind(b), ind(e))
    for b in body_fn(in_loop):
        yield "with cm():\n%s" % ind(b)
        for h in else_opts(in_loop):
            yield "try:\n%s\nexcept E:\n%s" % (ind(b), ind(h))
            yield "try:\n%s\nexcept E:\n%s\nfinally:\n    print(\"fin\")" % (ind(b), ind(h))


def level1(in_loop=False):
    return list(dict.fromkeys(compounds(bodies0, lambda il: leaves(il), in_loop)))


def level2(tier):
    l1_noloop = level1(False)
    l1_loop = level1(True)
    body_fn = lambda il: (l1_loop if il else l1_noloop) if tier == "quick" else \
        ((l1_loop if il else l1_noloop) + ['print("b")\n' + s for s in (l1_loop if il else l1_noloop)])
    conds = ["True", "p"] if tier == "quick" else CONDS
    iters = ["xs"] if tier == "quick" else ITERS
    else_opts = lambda il: ['print("e")']
    for s in compounds(body_fn, else_opts, False, conds, iters):
        if s.startswith(("while True", "while 1")) and not any(w in s for w in ("break", "return", "raise")):
            continue
        yield s


def guarded_exits():
    """Loop bodies of the form [if C: L1 [else: L3]; L2]: a guarded jump followed by another jump / observable
    at loop-body level, in every loop kind, with and without a loop else (shape family added after the seeded
    change C16-continue-not-a-way-past-loop showed that two-statement loop bodies were missing)."""
    outers = ["for v in %s:" % it for it in ITERS] + ["while %s:" % c for c in ("True", "p", "1")]
    ls = leaves(True)
    for outer in outers:
        for c in ("p", "q"):
            for l1 in ls:
                for l2 in ls:
                    if l1 == 'print("o")' and l2 == 'print("o")':
                        continue
                    inner = "if %s:\n%s" % (c, ind(l1))
                    for inner_else in (None, "return 2", 'print("ie")'):
                        it = inner if inner_else is None else inner + "\nelse:\n" + ind(inner_else)
                        body = it + "\n" + l2
                        yield "%s\n%s" % (outer, ind(body))
                        yield "%s\n%s\nelse:\n    print(\"le\")" % (outer, ind(body))


# iterables of every kind the constant evaluator may know (family added after the seeded change
# C16-for-over-empty-lazy-iterator: an empty *lazy* iterator is truthy, only an emptiness test by iteration is right)
MORE_ITERS = ["[]", '""', "{}", "set()", "range(0)", "range(2, 0)", "enumerate(())", "zip((1, 2), ())", "reversed(())",
              "iter(())", "filter(None, (0,))", "map(abs, ())", "dict()", "sorted(())", "list()", "tuple()",
              "[1]", '"ab"', "{1: 2}", "{1}", "enumerate((1,))", "zip((1,), (2,))", "reversed((1,))", "iter((1,))",
              "filter(None, (1,))", "map(abs, (1,))", "5", "None", "range(1)", "(i for i in ())"]
SUPPRESS_BODIES = ['raise E("r")', 'print("b")\nraise E("r")', "return 1", "assert p", 'raise ValueError("v")']


def iterable_family():
    for it in MORE_ITERS:
        for b in bodies0(True):
            yield "for v in %s:\n%s" % (it, ind(b))
            yield "for v in %s:\n%s\nelse:\n    print(\"e\")" % (it, ind(b))
    # context managers that swallow exceptions: the statement after the with block is reachable
    for cmgr in ("contextlib.suppress(E)", "contextlib.suppress(Exception)", "contextlib.suppress()", "cm()", "contextlib.nullcontext()"):
        for b in SUPPRESS_BODIES:
            yield "with %s:\n%s" % (cmgr, ind(b))
            yield "with %s as w:\n%s" % (cmgr, ind(b))


POINTLESS = [
    "1", "x", "x + 1", "[x]", "{1: x}", "x < 2", "not x", "x if p else 1", "[i for i in xs]", "f'{x}'", "xs[:1]", "x.real",
    "(lambda: 0)", "note", "...", "'doc'", "(x, x)",
    "note(1)", "[note(i) for i in xs]", "{note(i) for i in xs}", "{i: note(i) for i in xs}", "[i for i in note(xs)]",
    "[i for i in xs if note(i)]", "note(1) if p else 2", "1 if note(p) else 2", "2 if p else note(3)", "f'{note(3)}'",
    "f'{x:{note(4)}}'", "xs[note(0):]", "note(xs).count", "note(1) + 1", "-note(1)", "note(1) < 2", "not note(1)", "[note(1)]",
    "{1: note(2)}", "(lambda a=note(4): a)", "unknown_fn(1)", "len(note(xs))", "str(note(1))", "note(1) and 2", "p and note(5)",
    "p or note(6)", "(note(7), 1)", "x.bit_length()", "xs.count(1)", "print('side')", "sorted(xs)",
    "xs[0:1:note(1)]", "xs[note(0):1]", "xs[0:note(1)]", "xs[note(0)]", "{note(1): 2}", "{**note({})}", "[*note(xs)]",
    "x if note(p) else 1", "(yield_ := note(8))", "lambda: note(9)", "f'{x!r:>{note(2)}}'", "note(1) is None", "x in note(xs)",
    "-x", "x ** 2", "x % 2", "x.real.imag", "xs[0:1][0:1]", "(x,)[0]", "{1, x}", "{x: x}", "x if x else x",
]
RAISING = ["int('x')", "xs[5]", "{}['k']", "1 // (x - x)", "x.nope", "len(5)", "[][0]", "int(t0)", "1 / 0", "x[0]", "x()", "-t0", "t0 + 1",
           "t0 < 1", "{}[x]", "x.real.nope", "[i.nope for i in (1,)]", "next(iter(()))", "(1).nope", "xs[5] if p or not p else 0"]
# the same raising expressions one level deeper (nested in an if / with / for inside the try body)
RAISING_NESTS = {"plain": "%s", "in_if": "if x:\n    %s", "in_else": "if not x:\n    pass\nelse:\n    %s", "in_with": "with cm():\n    %s",
                 "in_for": "for w0 in (1,):\n    %s", "in_while": "while x:\n    %s\n    break", "in_inner_try": "try:\n    %s\nfinally:\n    pass"}


# user-defined callables (family added after the seeded change C16-safe-callable-shadowed-name: a bare call through a
# name that is both a side-effect-free def and rebound elsewhere was deleted): definition kind x rebinding form; the
# call statement `cb()` sits between two observables
CALLABLE_DEFS = {
    "pure": "def cb():\n    return None\n",
    "pure_arg": "def cb(a=1):\n    return a + 1\n",
    "pure_branches": "def cb(a=1):\n    if a:\n        return 1\n    return 2\n",
    "prints": "def cb():\n    print('cb')\n",
    "notes": "def cb():\n    return note('cb')\n",
    "returns_print": "def cb():\n    return print('cb')\n",
    "raises": "def cb():\n    raise E('cb')\n",
    "prints_after_if_return": "def cb(a=0):\n    if a:\n        return 0\n    print('cb')\n",
    "prints_in_else": "def cb(a=0):\n    if a:\n        return 0\n    else:\n        print('cb')\n        return 1\n",
    "calls_impure": "def helper():\n    print('helper')\ndef cb():\n    return helper()\n",
    "mutates_global": "def cb():\n    LOG.append('cb')\n",
    "class_plain": "class cb:\n    pass\n",
    "class_printing_init": "class cb:\n    def __init__(self):\n        print('init')\n",
    "class_inherits_printing_init": "class Base:\n    def __init__(self):\n        print('init')\nclass cb(Base):\n    pass\n",
    "lambda_prints": "cb = lambda: print('cb')\n",
    "alias_of_print": "cb = print\n",
    "generator": "def cb():\n    print('never runs')\n    yield 1\n",
}
OTHER = "def other():\n    print('other')\n"
# form -> (module-level text after the definition, text inside f before the call)
REBINDINGS = {
    "none": ("", ""),
    "module_assign": ("cb = other\n", ""),
    "module_assign_in_if": ("if LOG is not None:\n    cb = other\n", ""),
    "module_assign_in_try": ("try:\n    cb = other\nexcept E:\n    pass\n", ""),
    "module_for_target": ("for cb in (other,):\n    pass\n", ""),
    "module_with_target": ("with cmv(other) as cb:\n    pass\n", ""),
    "module_walrus": ("if (cb := other):\n    pass\n", ""),
    "module_tuple_target": ("cb, unused_w = other, 0\n", ""),
    "module_redefined": ("def cb():\n    print('second def')\n", ""),
    "global_in_function": ("def rebind():\n    global cb\n    cb = other\nrebind()\n", ""),
    "local_assign": ("", "cb = other\n"),
    "local_for_target": ("", "for cb in (other,):\n    pass\n"),
    "local_with_target": ("", "with cmv(other) as cb:\n    pass\n"),
    "local_walrus": ("", "if (cb := other):\n    pass\n"),
    "local_import": ("", "from os import getcwd as cb\n"),
    "comprehension_target": ("", "w0 = [cb for cb in (other,)]\n"),
    "parameter": ("def through(cb):\n    print('b2')\n    cb()\n    print('a2')\nthrough(other)\n", ""),
    "lambda_parameter": ("through = lambda cb: (print('b2'), cb(), print('a2'))\nthrough(other)\n", ""),
}
PRE_CALLABLES = PRE + "@contextlib.contextmanager\ndef cmv(x):\n    yield x\n" + OTHER


def callable_program(dkind, rkind):
    mod, loc = REBINDINGS[rkind]
    body = "print('before')\n" + loc + "cb()\nprint('after')\n"
    return PRE_CALLABLES + CALLABLE_DEFS[dkind] + mod + "def f(p, q, xs):\n" + ind(body) + "    return 'end'\n" + DRV


def units(tier):
    for d in CALLABLE_DEFS:
        yield {"t": "callable", "def": d}
    l1 = level1()
    for i in range(0, len(l1), 25):
        yield {"t": "shape", "level": 1, "shapes": l1[i : i + 25]}
    l2 = list(dict.fromkeys(level2(tier)))
    for i in range(0, len(l2), 60):
        yield {"t": "shape", "level": 2, "shapes": l2[i : i + 60]}
    ge = list(dict.fromkeys(guarded_exits()))
    for i in range(0, len(ge), 60):
        yield {"t": "shape", "level": 3, "shapes": ge[i : i + 60]}
    fam = list(dict.fromkeys(iterable_family()))
    for i in range(0, len(fam), 40):
        yield {"t": "shape", "level": 4, "shapes": fam[i : i + 40]}
    for e in POINTLESS:
        yield {"t": "pointless", "expr": e}
    for e in RAISING:
        yield {"t": "raising", "expr": e}
        for nest in RAISING_NESTS:
            if nest != "plain":
                yield {"t": "raising", "expr": e, "nest": nest}


def shape_program(shape):
    return PRE + "def f(p, q, xs):\n" + ind(shape) + '\n    print("after")\n    return "end"\n' + DRV


def may_loop_forever(shape):
    """Static pre-filter: a while loop whose condition is not constantly false and whose body contains no
    return / raise / break / failing assert can spin forever under some valuation -> outside the class."""
    for n in ast.walk(ast.parse(shape)):
        if isinstance(n, ast.While):
            t = ast.unparse(n.test)
            if t in ("False", "0"):
                continue
            if not any(isinstance(c, (ast.Return, ast.Raise, ast.Break, ast.Assert)) for b in n.body for c in ast.walk(b)):
                return True
    return False


def check_shape(shape, level, with_fc, only=None):
    from pyrefact import core

    prog = shape_program(shape)
    if may_loop_forever(shape):
        return [], {"admitted": False, "nontrivial": []}
    orig = progs.run_prog(prog, limit=0.3)
    out = []
    info = {"admitted": orig[0] == "ok", "nontrivial": []}
    if orig[0] != "ok":
        return out, info
    desc0 = {"shape": shape}
    node = ast.parse(shape).body[0]
    if only in (None, "core.is_blocking"):
        try:
            blk = core.is_blocking(node)
        except Exception as e:  # noqa: BLE001
            blk = False
            out.append(violation("core.is_blocking", "raised:" + type(e).__name__, shape[:100], {**desc0, "entry": "core.is_blocking"}))
        if blk:
            info["nontrivial"].append(key_of(["blk", shape]))
            if "after\n" in orig[1]:
                out.append(violation("core.is_blocking", "says_blocking_but_next_statement_runs", "is_blocking is True for\n%s" % shape, {**desc0, "entry": "core.is_blocking"}))
    entries = list(CONSUMERS) + (["format_code"] if with_fc else [])
    for entry in entries:
        if only and entry != only:
            continue
        desc = {**desc0, "entry": entry}
        boot.clear_caches()
        try:
            new = progs.format_code(prog) if entry == "format_code" else progs.call_rule(entry, prog)
        except BaseException:  # noqa: BLE001
            info["blocked"] = info.get("blocked", 0) + 1
            continue
        if new == prog:
            continue
        info["nontrivial"].append(key_of(["c", shape, entry]))
        c = progs.compare(orig, new)
        if c is not None:
            site = entry
            if entry == "format_code":
                site, _ = progs.culprit(prog, {}, orig)
            out.append(violation(site, c[0], "%s on shape\n%s\n%s" % (entry, shape, c[1]), desc))
    return out, info


def pointless_program(expr, raising=False):
    if raising:
        stmt = expr if raising is True else RAISING_NESTS[raising] % expr
        body = "x = 3\nt0 = 'z'\ntry:\n%s\n    print('no error')\nexcept Exception as err:\n    print('handler', type(err).__name__)\n" % ind(stmt)
    else:
        body = "x = 3\nprint('before')\n%s\nprint('after')\n" % expr
    return PRE + "def f(p, q, xs):\n" + ind(body) + "    return 'end'\n" + DRV


def check_pointless(expr, raising, only=None):
    from pyrefact import core, parsing

    prog = pointless_program(expr, raising)
    orig = progs.run_prog(prog)
    out, info = [], {"admitted": orig[0] == "ok", "nontrivial": []}
    if orig[0] != "ok":
        return out, info
    desc0 = {"expr": expr, "raising": raising}
    tree = ast.parse(prog)
    stmt = [n for n in ast.walk(tree) if isinstance(n, ast.Expr) and ast.unparse(n.value) == ast.unparse(ast.parse(expr).body[0].value)]
    if stmt and not raising and only in (None, "core.has_side_effect"):
        safe = parsing.safe_callable_names(tree)
        try:
            se = core.has_side_effect(stmt[0], safe)
        except Exception:  # noqa: BLE001
            se = True
        if not se:
            info["nontrivial"].append(key_of(["se", expr, raising]))
            lines = prog.splitlines(keepends=True)
            s = stmt[0]
            deleted = "".join(lines[: s.lineno - 1] + [" " * s.col_offset + "pass\n"] + lines[s.end_lineno :])
            c = progs.compare(orig, deleted)
            if c is not None:
                out.append(violation("core.has_side_effect", "says_no_side_effect_but_deleting_changes_output",
                                     "has_side_effect is False for `%s`%s: %s" % (expr, " inside try" if raising else "", c[1]), {**desc0, "entry": "core.has_side_effect"}))
    for entry in ["fixes.delete_pointless_statements", "format_code"]:
        if only and entry != only:
            continue
        boot.clear_caches()
        try:
            new = progs.format_code(prog) if entry == "format_code" else progs.call_rule(entry, prog)
        except BaseException:  # noqa: BLE001
            continue
        if new == prog:
            continue
        info["nontrivial"].append(key_of(["p", expr, raising, entry]))
        c = progs.compare(orig, new)
        if c is not None:
            site = entry
            if entry == "format_code":
                site, _ = progs.culprit(prog, {}, orig)
            out.append(violation(site, c[0], "%s on statement `%s`%s: %s" % (entry, expr, " inside try" if raising else "", c[1]), {**desc0, "entry": entry}))
    return out, info


def check_callable(dkind, rkind, only=None):
    from pyrefact import core, parsing

    prog = callable_program(dkind, rkind)
    orig = progs.run_prog(prog)
    out, info = [], {"admitted": orig[0] == "ok", "nontrivial": []}
    if orig[0] != "ok":
        return out, info
    desc0 = {"def": dkind, "rebinding": rkind}
    tree = ast.parse(prog)
    fdef = [n for n in tree.body if isinstance(n, ast.FunctionDef) and n.name == "f"][0]
    stmt = [n for n in fdef.body if isinstance(n, ast.Expr) and ast.unparse(n) == "cb()"][0]
    if only in (None, "core.has_side_effect"):
        try:
            se = core.has_side_effect(stmt, parsing.safe_callable_names(tree))
        except Exception:  # noqa: BLE001
            se = True
        if not se:
            info["nontrivial"].append(key_of(["cse", dkind, rkind]))
            lines = prog.splitlines(keepends=True)
            deleted = "".join(lines[: stmt.lineno - 1] + [" " * stmt.col_offset + "pass\n"] + lines[stmt.end_lineno :])
            c = progs.compare(orig, deleted)
            if c is not None:
                out.append(violation("core.has_side_effect", "says_no_side_effect_but_deleting_changes_output",
                                     "cb() with def %s, rebinding %s: safe_callable_names + has_side_effect say the call is pointless: %s" % (dkind, rkind, c[1]),
                                     {**desc0, "entry": "core.has_side_effect"}))
    # format_code only under safe: without it the naming rule renames the rebound names (C19's business, known there)
    for entry in ["fixes.delete_pointless_statements", "fixes.delete_unused_functions_and_classes", "format_code:safe"]:
        if only and entry != only:
            continue
        boot.clear_caches()
        try:
            if entry.startswith("format_code"):
                new = progs.format_code(prog, {"safe": True} if entry.endswith("safe") else {})
            else:
                new = progs.call_rule(entry, prog)
        except BaseException:  # noqa: BLE001
            continue
        if new == prog:
            continue
        info["nontrivial"].append(key_of(["cc", dkind, rkind, entry]))
        c = progs.compare(orig, new)
        if c is not None:
            site = entry
            if entry.startswith("format_code"):
                site, _ = progs.culprit(prog, {"safe": True} if entry.endswith("safe") else {}, orig)
            out.append(violation(site, c[0], "%s on cb() with def %s, rebinding %s: %s" % (entry, dkind, rkind, c[1]), {**desc0, "entry": entry}))
    return out, info


def run_unit(unit):
    tier = os.environ.get("MC_TIER", "quick")
    res = {"n": 0, "nontrivial": [], "viol": [], "stats": {}, "samples": []}
    st = res["stats"]
    if unit["t"] == "callable":
        for r in REBINDINGS:
            v, info = check_callable(unit["def"], r)
            if not info["admitted"]:
                st["callable_program_not_admitted"] = st.get("callable_program_not_admitted", 0) + 1
                continue
            res["n"] += 1
            res["nontrivial"].extend(info["nontrivial"])
            res["viol"].extend(v)
            if not v and info["nontrivial"] and not res["samples"]:
                res["samples"].append({"def": unit["def"], "rebinding": r})
        return res
    if unit["t"] == "shape":
        for shape in unit["shapes"]:
            v, info = check_shape(shape, unit["level"], with_fc=(unit["level"] == 1 or tier == "thorough"))
            if not info["admitted"]:
                st["shapes_not_terminating_or_failing"] = st.get("shapes_not_terminating_or_failing", 0) + 1
                continue
            res["n"] += 1
            st["shapes_level_%d" % unit["level"]] = st.get("shapes_level_%d" % unit["level"], 0) + 1
            res["nontrivial"].extend(info["nontrivial"])
            res["viol"].extend(v)
            if not res["samples"] and info["nontrivial"] and not v:
                res["samples"].append({"shape": shape})
    else:
        v, info = check_pointless(unit["expr"], (unit.get("nest") or True) if unit["t"] == "raising" else False)
        if info["admitted"]:
            res["n"] += 1
            res["nontrivial"].extend(info["nontrivial"])
            res["viol"].extend(v)
            if not v and info["nontrivial"]:
                res["samples"].append({"statement": unit["expr"]})
        else:
            st["pointless_not_admitted"] = st.get("pointless_not_admitted", 0) + 1
    return res


def replay(desc):
    if "rebinding" in desc:
        return check_callable(desc["def"], desc["rebinding"], only=desc["entry"])[0]
    if "shape" in desc:
        return check_shape(desc["shape"], 1, with_fc=True, only=desc["entry"])[0]
    return check_pointless(desc["expr"], desc["raising"], only=desc["entry"])[0]


def explain(desc):
    if "rebinding" in desc:
        return callable_program(desc["def"], desc["rebinding"])
    if "shape" in desc:
        return shape_program(desc["shape"])
    return pointless_program(desc["expr"], desc["raising"])
