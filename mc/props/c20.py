"""C20 - opt-out comments are honoured (skip_file: unchanged everywhere; ignore: the line survives verbatim)."""
from __future__ import annotations

import ast
import builtins
import contextlib
import io
import os
import sys
import tokenize

from mc import boot, corpus, progs
from mc.kernel import key_of, violation
from mc.props import c03

ID = "C20"
LEVEL = "exploration"
RULE = (
    "(a) skip_file: every input (atom programs, construct corpus, repository examples) x every physical line as the "
    "carrier of '# pyrefact: skip_file' (as a trailing comment and as an own line) -> format_code under default, safe, "
    "keep_imports and safe+keep_imports+preserve must return the identical string; for the first / middle / last line also format_file (no write-mode open, "
    "bytes unchanged, falsy result) and main(['--from-stdin']) (prints the text plus the one newline print adds). "
    "(b) ignore: every atom program x every physical line of the atom (thorough: every line of the program, all four "
    "contexts; plus the last line of the atom when the atom ends the file, with and without trailing newline) on which a trailing comment is lexically a comment and does not change the tree, annotated with "
    "'# pyrefact: ignore <tag>' x {each of the 86 rules, format_code}; oracle: the annotated line - indentation, code "
    "and comment, byte for byte - is a line of the output. non-trivial = (a) the un-annotated input would have been "
    "changed / (b) the un-annotated line would not have survived the same entry point"
)
ASSUMPTIONS = [
    "the documented spelling '# pyrefact: skip_file' / '# pyrefact: ignore' is used",
    "entry points that raise are C04's business (blocked here)",
]


def worker_init():
    progs.worker_setup()


def units(tier):
    for n in progs.ATOMS:
        yield {"t": "skip", "ref": ["atom", n]}
    for n in corpus.CONSTRUCTS:
        yield {"t": "skip", "ref": ["construct", n, "alone"]}
    for e in corpus.repo_examples():
        yield {"t": "skip", "ref": ["example", e["id"]]}
    for n in progs.ATOMS:
        ctxs = progs.contexts_of(n) if tier == "thorough" else ("module",)
        for ctx in ctxs:
            yield {"t": "ignore", "atom": n, "ctx": ctx}


# ------------------------------------------------------------------------------------------------
# (a) skip_file


def skip_variants(src):
    lines = src.splitlines(keepends=True)
    for i, line in enumerate(lines):
        body = line.rstrip("\r\n")
        eol = line[len(body):]
        yield "trail:%d" % i, "".join(lines[:i]) + body + "  # pyrefact: skip_file" + eol + "".join(lines[i + 1 :])
        yield "own:%d" % i, "".join(lines[:i]) + "# pyrefact: skip_file\n" + "".join(lines[i:])


def check_skip(ref, only=None):
    main = boot.main_module()
    src = c03.get_input(ref)
    res = {"n": 0, "nontrivial": [], "viol": [], "stats": {}, "samples": []}
    if not src.strip():
        return res
    boot.clear_caches()
    try:
        changed_without = progs.format_code(src) != src
    except BaseException:  # noqa: BLE001
        changed_without = True
    nlines = len(src.splitlines())
    deep_rows = {0, nlines // 2, nlines - 1}
    for label, text in skip_variants(src):
        row = int(label.split(":")[1])
        entries = ["format_code:default", "format_code:safe", "format_code:keep_imports", "format_code:safe_keep_preserve"]
        if row in deep_rows and label.startswith("trail"):
            entries += ["format_file", "stdin"]
        for entry in entries:
            desc = {"ref": ref, "variant": label, "entry": entry}
            if only and desc != only:
                continue
            res["n"] += 1
            k = key_of(desc)
            if changed_without:
                res["nontrivial"].append(k)
            try:
                problem = _skip_entry(main, entry, text)
            except BaseException as e:  # noqa: BLE001
                res["stats"]["blocked_by_C04"] = res["stats"].get("blocked_by_C04", 0) + 1
                continue
            if problem:
                res["viol"].append(violation(entry.split(":")[0], "skip_file_not_honoured", "%s %s via %s: %s" % (ref, label, entry, problem), desc, key=k))
            elif not res["samples"] and changed_without:
                res["samples"].append(desc)
    return res


def _skip_entry(main, entry, text):
    boot.clear_caches()
    if entry.startswith("format_code"):
        cname = entry.split(":")[1]
        cfg = {"default": {}, "safe": {"safe": True}, "keep_imports": {"keep_imports": True},
               "safe_keep_preserve": {"safe": True, "keep_imports": True, "preserve": ["x", "a", "f"]}}[cname]
        out = progs.format_code(text, cfg)
        return None if out == text else "returned a different string"
    if entry == "format_file":
        path = os.path.join(os.getcwd(), "c20_skip.py")
        with open(path, "w", encoding="utf-8", newline="") as f:
            f.write(text)
        before = open(path, "rb").read()
        writes = []
        real_open = builtins.open

        def logging_open(file, mode="r", *a, **k):
            if any(c in mode for c in "wax+") and os.path.abspath(str(file)) == path:
                writes.append(mode)
            return real_open(file, mode, *a, **k)

        builtins.open = logging_open
        try:
            ret = main.format_file(path)
        finally:
            builtins.open = real_open
        after = open(path, "rb").read()
        os.remove(path)
        if writes or after != before or ret:
            return "format_file wrote (%s) / changed bytes (%s) / reported a change (%s)" % (bool(writes), after != before, bool(ret))
        return None
    if entry == "stdin":
        if "\r" in text:
            return None
        old_in = sys.stdin
        buf = io.StringIO()
        sys.stdin = io.StringIO(text)
        try:
            with contextlib.redirect_stdout(buf):
                main.main(["--from-stdin"])
        finally:
            sys.stdin = old_in
            from pyrefact import logs

            logs.set_level(100)
        return None if buf.getvalue() == text + "\n" else "stdin mode printed something else"
    raise ValueError(entry)


# ------------------------------------------------------------------------------------------------
# (b) ignore


def annotate_lines(src, first_row, last_row):
    """(row, annotated source, annotated line) for rows where a trailing comment is lexically a comment."""
    try:
        toks = list(tokenize.generate_tokens(io.StringIO(src).readline))
        base = ast.dump(ast.parse(src))
    except Exception:  # noqa: BLE001
        return
    lines = src.splitlines(keepends=True)
    ok_rows = {t.start[0] for t in toks if t.type in (tokenize.NEWLINE, tokenize.NL)}
    for row in sorted(ok_rows):
        if row > len(lines) or not (first_row <= row <= last_row):
            continue
        line = lines[row - 1]
        body = line.rstrip("\r\n")
        if not body.strip() or "#" in body or body.rstrip().endswith("\\"):
            continue
        new_line = body + "  # pyrefact: ignore K%d" % row
        new_src = "".join(lines[: row - 1]) + new_line + line[len(body):] + "".join(lines[row:])
        try:
            if ast.dump(ast.parse(new_src)) != base:
                continue
        except SyntaxError:
            continue
        yield row, new_src, new_line


def check_ignore(atom, ctx, tier, only=None, tail="epilogue"):
    res = {"n": 0, "nontrivial": [], "viol": [], "stats": {}, "samples": []}
    st = res["stats"]
    if tail == "epilogue":
        src = progs.build([atom], ctx)
    else:
        # the atom is the last thing in the file, so that the annotated line is the LAST line of the source
        src = progs.PRELUDE + progs.ATOMS[atom]["code"]
        if tail == "atom_last_nonl":
            src = src.rstrip("\n")
    lines = src.splitlines()
    if tail != "epilogue":
        first = last = len(lines)
    elif tier == "thorough":
        first, last = 1, len(lines)
    else:
        pre = len(progs.PRELUDE.splitlines())
        first, last = pre + 1, len(lines) - 1
    entries = ["format_code"] + list(progs.rules())
    # which lines survive without annotation, per entry point (for the non-triviality count)
    plain = {}
    for entry in entries:
        boot.clear_caches()
        try:
            out = progs.format_code(src) if entry == "format_code" else progs.call_rule(entry, src)
            plain[entry] = set(out.splitlines())
        except BaseException:  # noqa: BLE001
            plain[entry] = None
    for row, new_src, new_line in annotate_lines(src, first, last):
        for entry in entries:
            desc = {"atom": atom, "ctx": ctx, "row": row, "entry": entry}
            if tail != "epilogue":
                desc["tail"] = tail
            if only and desc != only:
                continue
            res["n"] += 1
            boot.clear_caches()
            try:
                out = progs.format_code(new_src) if entry == "format_code" else progs.call_rule(entry, new_src)
            except BaseException:  # noqa: BLE001
                st["blocked_by_C04"] = st.get("blocked_by_C04", 0) + 1
                continue
            k = key_of(desc)
            if plain[entry] is not None and lines[row - 1] not in plain[entry]:
                res["nontrivial"].append(k)
            out_lines = out.splitlines()
            if new_line in out_lines:
                if not res["samples"] and k in res["nontrivial"]:
                    res["samples"].append({**desc, "line": new_line})
                continue
            stripped = [ln.strip() for ln in out_lines]
            if new_line.strip() in stripped:
                kind = "ignored_line_reindented"
            elif any("ignore K%d" % row in ln for ln in out_lines):
                kind = "ignored_line_rewritten"
            else:
                kind = "ignored_line_deleted"
            site = entry
            if entry == "format_code":
                site, _ = progs.culprit(new_src, {}, None, judge=lambda t: new_line in t.splitlines())
            res["viol"].append(violation(site, kind, "%s/%s row %d via %s: %r" % (atom, ctx, row, entry, new_line.strip()[:80]), desc, key=k))
    return res


def run_unit(unit):
    tier = os.environ.get("MC_TIER", "quick")
    if unit["t"] == "skip":
        return check_skip(unit["ref"])
    res = check_ignore(unit["atom"], unit["ctx"], tier)
    if unit["ctx"] == "module":
        for tail in ("atom_last", "atom_last_nonl"):
            r = check_ignore(unit["atom"], "module", tier, tail=tail)
            res["n"] += r["n"]
            res["nontrivial"] += r["nontrivial"]
            res["viol"] += r["viol"]
            for k, v in r["stats"].items():
                res["stats"][k] = res["stats"].get(k, 0) + v
    return res


def replay(desc):
    progs.worker_setup()
    if "variant" in desc:
        return check_skip(desc["ref"], only=desc)["viol"]
    return check_ignore(desc["atom"], desc["ctx"], "thorough", only=desc, tail=desc.get("tail", "epilogue"))["viol"]


def explain(desc):
    if "variant" in desc:
        return dict(skip_variants(c03.get_input(desc["ref"])))[desc["variant"]]
    src = progs.build([desc["atom"]], desc["ctx"])
    for row, new_src, new_line in annotate_lines(src, desc["row"], desc["row"]):
        return new_src
    return src
