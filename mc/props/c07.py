"""C07 - safe mode never removes or renames a module's public surface."""
from __future__ import annotations

import os

from mc import boot, corpus, progs, surface
from mc.kernel import key_of, violation
from mc.props import c03

ID = "C07"
LEVEL = "exploration"
RULE = (
    "modules assembled from the surface alphabet: top-level function / async function / class / assignment / annotated "
    "/ augmented / tuple, list, starred and chained assignment x name style (snake, camelCase, UPPER, _private, "
    "__dunder__, _, PascalCase) x usage (unused, used, used only by an unused definition, duplicate definitions), "
    "classes with attribute / method / method not using self / static method (used via self, unused) x styles, "
    "attribute attached after the class: every module of <= 2 items (thorough: and triples of the core items), plus "
    "every atom program in 4 contexts and every repository example; format_code(safe=True) (a subset also through "
    "format_files(safe=True) on disk); oracle: every name of the input's surface (AST walk by the letter of the "
    "property) is still defined (symtable, any binding form) in the output. non-trivial = safe-mode formatting changed "
    "the text"
)
RULE += (" the surface alphabet includes definitions placed after 14 module-level statements that cannot (or only seem unable to) be passed: raise, assert False, "
         "while True, if/else both raising, with-suppress raise, try/finally raise, for-raise, sys.exit(), ...")
ASSUMPTIONS = [
    "'still defined' is lenient: any binding form at module scope / in the class of the same name counts",
    "a format_code call that raises or returns invalid text is C04's / C03's business (blocked here)",
]


def worker_init():
    progs.worker_setup()


def units(tier):
    keys = [m[0] for m in surface.modules(2 if tier == "quick" else 3)]
    for i in range(0, len(keys), 40):
        yield {"t": "surface", "keys": keys[i : i + 40]}
    for p in progs.program_space("quick"):
        if len(p["atoms"]) == 1:
            yield {"t": "prog", "prog": p}
    for e in corpus.repo_examples():
        yield {"t": "example", "id": e["id"]}
    if tier == "thorough":
        for f in corpus.stdlib_files():
            yield {"t": "stdlib", "file": f}
    files_keys = [m[0] for m in surface.modules(1)]
    for i in range(0, len(files_keys), 20):
        yield {"t": "files", "keys": files_keys[i : i + 20]}


class SerialPool:
    """Stand-in for multiprocessing.Pool used where schedules are not the subject (C06 explores those)."""

    def __init__(self, *a, **k):
        pass

    def __enter__(self):
        return self

    def __exit__(self, *a):
        return False

    def starmap(self, fn, it):
        return [fn(*args) for args in it]


def check_text(src, top, cls, desc, entry="format_code"):
    boot.clear_caches()
    try:
        out = progs.format_code(src, {"safe": True})
    except BaseException:  # noqa: BLE001
        return [], "blocked", None
    return _judge(src, out, top, cls, desc)


def _judge(src, out, top, cls, desc):
    if out == src:
        return [], "unchanged", out
    try:
        miss = surface.missing(top, cls, out)
    except SyntaxError:
        return [], "blocked", out
    v = []
    if miss:
        site = "format_code(safe)"
        try:
            site, _ = progs.culprit(src, {"safe": True}, None, judge=lambda t: _still(t, top, cls))
        except BaseException:  # noqa: BLE001
            pass
        kinds = sorted({"underscore_name" if m.split(".")[-1] == "_" else ("class_member" if "." in m else "toplevel_name") for m in miss})
        v.append(violation(site, "surface_lost:" + "+".join(kinds), "%s: safe mode lost %s" % (desc.get("key") or desc, ", ".join(miss)), desc))
    return v, "changed", out


def _still(text, top, cls):
    try:
        return not surface.missing(top, cls, text)
    except SyntaxError:
        return True


def check_files(key):
    """The CLI path: format_files(safe=True) on a real file."""
    main = boot.main_module()
    code, top, cls = surface.module_by_key(key)
    desc = {"key": key, "entry": "format_files"}
    d = os.path.join(os.getcwd(), "c07_files")
    os.makedirs(d, exist_ok=True)
    path = os.path.join(d, "vq_mod.py")
    with open(path, "w") as f:
        f.write(code)
    real_pool = main.mp.Pool
    main.mp.Pool = SerialPool
    boot.clear_caches()
    try:
        main.format_files([path], safe=True, n_cores=1)
    except BaseException:  # noqa: BLE001
        return [], "blocked"
    finally:
        main.mp.Pool = real_pool
    out = open(path).read()
    os.remove(path)
    v, status, _ = _judge(code, out, top, cls, desc)
    return v, status


def run_unit(unit):
    res = {"n": 0, "nontrivial": [], "viol": [], "stats": {}, "samples": []}
    st = res["stats"]

    def tally(v, status, k, sample):
        res["n"] += 1
        st[status] = st.get(status, 0) + 1
        if status == "changed":
            res["nontrivial"].append(k)
            if not v and not res["samples"]:
                res["samples"].append(sample)
        res["viol"].extend(v)

    if unit["t"] == "surface":
        for key in unit["keys"]:
            code, top, cls = surface.module_by_key(key)
            v, s, _ = check_text(code, top, cls, {"key": key})
            tally(v, s, key_of(["s", key]), {"module": key})
    elif unit["t"] == "prog":
        src = progs.build(unit["prog"]["atoms"], unit["prog"]["ctx"])
        top, cls = surface.surface(src)
        v, s, _ = check_text(src, top, cls, {"prog": unit["prog"]})
        tally(v, s, key_of(["p", unit["prog"]]), {"program": unit["prog"]})
    elif unit["t"] == "stdlib":
        src = corpus.stdlib_files()[unit["file"]]
        top, cls = surface.surface(src)
        v, s, _ = check_text(src, top, cls, {"stdlib": unit["file"]})
        tally(v, s, key_of(["std", unit["file"]]), {"stdlib": unit["file"]})
    elif unit["t"] == "example":
        src = c03.get_input(["example", unit["id"]])
        if c03.level(src) >= 2:
            top, cls = surface.surface(src)
            v, s, _ = check_text(src, top, cls, {"example": unit["id"]})
            tally(v, s, key_of(["e", unit["id"]]), {"example": unit["id"]})
    else:
        for key in unit["keys"]:
            v, s = check_files(key)
            tally(v, s, key_of(["f", key]), {"module": key, "entry": "format_files"})
    return res


def replay(desc):
    progs.worker_setup()
    if desc.get("entry") == "format_files":
        return check_files(desc["key"])[0]
    if "key" in desc:
        code, top, cls = surface.module_by_key(desc["key"])
        return check_text(code, top, cls, desc)[0]
    if "prog" in desc:
        src = progs.build(desc["prog"]["atoms"], desc["prog"]["ctx"])
    elif "stdlib" in desc:
        src = corpus.stdlib_files()[desc["stdlib"]]
    else:
        src = c03.get_input(["example", desc["example"]])
    top, cls = surface.surface(src)
    return check_text(src, top, cls, desc)[0]


def explain(desc):
    if "key" in desc:
        return surface.module_by_key(desc["key"])[0]
    return ""
