"""C02 - every individual rewrite rule preserves program behaviour (rule x closed program, execution oracle)."""
from __future__ import annotations

from mc import boot, progs
from mc.kernel import key_of, violation

ID = "C02"
LEVEL = "exploration"
RULE = (
    "a case = (shipped rule, closed program); programs = every atom of the catalogue alone in each context "
    "(module / function body / loop body / method) and every ordered pair of core atoms in module and function "
    "context (thorough: also every ordered pair of any atom with a core atom, and triples of 12 core atoms); rules = the 86 public "
    "source->source functions found by introspection; each rule is called in isolation with empty caches and the "
    "original and rewritten programs are executed; non-trivial = the rule changed the text"
)
ASSUMPTIONS = [
    "programs are closed, deterministic and terminate normally (checked by running the original first)",
    "a rule that raises is C04's business (counted as blocked here)",
    "pandas is not installable offline: the three pandas rules are only exercised on a pure-Python stand-in",
]


def worker_init():
    progs.worker_setup()


def units(tier):
    return progs.program_space(tier)


def _check(prog_desc, only_rule=None):
    src = progs.build(prog_desc["atoms"], prog_desc["ctx"])
    orig = progs.run_prog(src)
    res = {"n": 0, "nontrivial": [], "viol": [], "stats": {}, "samples": []}
    st = res["stats"]
    if orig[0] != "ok":
        st["program_not_admitted"] = 1
        return res
    for q in progs.rules():
        if only_rule and q != only_rule:
            continue
        res["n"] += 1
        desc = {"prog": prog_desc, "rule": q}
        boot.clear_caches()
        try:
            out = progs.call_rule(q, src)
        except BaseException as e:  # noqa: BLE001
            st["blocked_by_C04"] = st.get("blocked_by_C04", 0) + 1
            continue
        if out == src:
            continue
        k = key_of(desc)
        res["nontrivial"].append(k)
        st["fired:" + q] = st.get("fired:" + q, 0) + 1
        c = progs.compare(orig, out)
        if c is None:
            st["fired_ok:" + q] = st.get("fired_ok:" + q, 0) + 1
            if not res["samples"] and len(prog_desc["atoms"]) == 1:
                res["samples"].append({"rule": q, "program": prog_desc, "changed_lines": _diff(src, out)})
        else:
            res["viol"].append(violation(q, c[0], "%s on %s: %s" % (q, prog_desc, c[1]), desc, key=k))
    return res


def _diff(a, b):
    import difflib

    return [l for l in difflib.unified_diff(a.splitlines(), b.splitlines(), lineterm="", n=0) if not l.startswith(("---", "+++", "@@"))][:8]


def run_unit(unit):
    return _check(unit)


def replay(desc):
    progs.worker_setup()
    return _check(desc["prog"], only_rule=desc["rule"])["viol"]


def explain(desc):
    src = progs.build(desc["prog"]["atoms"], desc["prog"]["ctx"])
    boot.clear_caches()
    try:
        out = progs.call_rule(desc["rule"], src)
    except BaseException as e:  # noqa: BLE001
        return "rule raised %r" % (e,)
    return "--- rule %s changed:\n%s\n--- original outcome %r\n--- new outcome %r" % (
        desc["rule"], "\n".join(_diff(src, out)), progs.run_prog(src), progs.run_prog(out))


def finish(tier, agg):
    st = agg["stats"]
    fired = {k[6:]: v for k, v in st.items() if k.startswith("fired:")}
    ok = {k[9:]: v for k, v in st.items() if k.startswith("fired_ok:")}
    allr = list(progs.rules())
    return {
        "rules": len(allr),
        "rules_fired": len(fired),
        "rules_never_fired": [r for r in allr if r not in fired],
        "rules_without_equivalent_firing": [r for r in fired if r not in ok],
    }
