"""C05 - formatting is a pure function of its input (history independence); caches stay faithful.

Explicit-state search: a state is the content of every pyrefact cache (structural dump), a transition is one
real API call. Invariant on every reached state: every cache entry equals a fresh recomputation from its key.
Differential oracle: result(op | history) == result(op | empty history) (and == a real fresh process).
"""
from __future__ import annotations

import ast
import copy
import hashlib
import json
import os
import subprocess
import sys

from mc import boot, progs
from mc.kernel import key_of, violation

ID = "C05"
LEVEL = "model_checking"
RULE = (
    "per source text s (every atom program in module context): depth 1 = every operation from the empty state - 86 "
    "rules, format_code under 4 configurations (quick: 1 for the sources that are not expanded further), findall/sub with 6 patterns, a rejected (rolled back) transaction - with "
    "the faithfulness invariant checked on the state reached; depth 2 = every pair (op, op) ('twice on the same "
    "input'), (format_code, op) for every non-rule op (core sources and thorough: every op), for 8 sources with cache-touching rules (thorough: all) (op, format_code), and in thorough "
    "for the core sources every ordered pair of rules; depth 3 = format_code(a); format_code(b); format_code(c) for all 125 triples of 5 sources (thorough: 512 of 8); "
    "long histories = each rule applied to all sources in sequence (forward; thorough: and backward), each result compared with "
    "the empty-history result; conformance = format_code results of the core sources recomputed in real fresh "
    "processes. non-trivial = the operation changed the cache state and returned a changed text"
)
RULE += (" successor layer: for every source and every firing rule (and format_code), the same call is first made on each SUCCESSOR text of the source (result of one "
         "rewriting pass of a firing rule, the rule's fixpoint, format_code's result; up to 5) and then on the source; result must equal the fresh result. "
         "'fresh' = caches cleared and every mutable container reachable from pyrefact module globals, defaults, class bodies, function attributes and closure cells restored.")
ASSUMPTIONS = [
    "states whose every cache entry is faithful are treated as equivalent to the empty state for further expansion "
    "(they can differ from it only by object identity); the depth-2/3 differential layers re-check exactly that",
    "cleared caches stand for a fresh process; validated by the subprocess conformance layer",
]

CFGS = {"default": {}, "safe": {"safe": True}, "keep_imports": {"keep_imports": True}, "preserve": {"preserve": ["a", "r", "g", "xs"]}}
PATTERNS = [("findall", "note({{x}})", None), ("findall", "{{t}} = {{v}}", None), ("sub", "note({{x}})", "note2({{x}})"),
            ("sub", "ident({{x}})", "{{x}}"), ("findall", "for {{i}} in {{it}}:\n    {{...*}}", None), ("sub", "print({{...*}})", "pass")]
D3_SOURCES = ["unused_self", "chained_calls", "naming", "nested_comprehensions", "overused_constant", "redundant_else_return",
              "loop_list_comp", "unused_imports"]


def worker_init():
    progs.worker_setup()
    _register_template_copiers()
    boot.ON_INSERT = _on_insert


def ops(all_cfgs=True):
    out = [("rule", q) for q in progs.rules()]
    out += [("fc", c) for c in (CFGS if all_cfgs else ["default"])]
    out += [("pat", i) for i in range(len(PATTERNS))]
    out.append(("reject", 0))
    return out


def apply_op(op, src):
    """Run one real API call; -> result (text / list / 'EXC:Type')."""
    kind, arg = op
    try:
        if kind == "rule":
            return progs.call_rule(arg, src)
        if kind == "fc":
            return progs.format_code(src, CFGS[arg])
        if kind == "pat":
            from pyrefact import pattern_matching as pm

            fn, pat, repl = PATTERNS[arg]
            return pm.findall(pat, src) if fn == "findall" else pm.sub(pat, repl, src)
        if kind == "reject":
            from pyrefact import core, processing

            @processing.fix
            def bad_rule(source):
                root = core.parse(source)
                for node in root.body[:2]:
                    yield node, "((( not python"
                    break
                for node in root.body[2:4]:
                    yield node, ast.Pass()

            return bad_rule(src)
    except BaseException as e:  # noqa: BLE001
        return "EXC:" + type(e).__name__
    raise ValueError(op)


# ------------------------------------------------------------------------------------------------
# state = cache contents


def sdump(obj, depth=0):
    if isinstance(obj, ast.AST):
        fields = sorted((k, v) for k, v in vars(obj).items())
        return "%s(%s)" % (type(obj).__name__, ",".join("%s=%s" % (k, sdump(v, depth + 1)) for k, v in fields))
    if isinstance(obj, (list, tuple)):
        return "[" + ",".join(sdump(x, depth + 1) for x in obj) + "]"
    if isinstance(obj, (set, frozenset)):
        return "{" + ",".join(sorted(sdump(x, depth + 1) for x in obj)) + "}"
    if isinstance(obj, dict) or hasattr(obj, "items"):
        try:
            return "{" + ",".join(sorted("%s:%s" % (sdump(k, depth + 1), sdump(v, depth + 1)) for k, v in obj.items())) + "}"
        except Exception:  # noqa: BLE001
            return repr(obj)
    if isinstance(obj, type):
        return obj.__name__
    return repr(obj)


SKIP_CACHES = {"_get_logger", "parse_line_length_from_pyproject_toml", "_make_match_type", "_issubclas_cache"}


_SD_MEMO = {}


def state_digest():
    """Canonical digest of the content of every cache (the explicit state).

    parse: source text -> dump of the tree with positions; compile_template: key -> structural dump (memoised per
    value object: the faithfulness invariant, not the state digest, is what detects in-place mutation);
    _group_nodes_in_scope: scope node identity (type, position) -> number of grouped nodes; others: repr."""
    h = hashlib.sha1()
    for mod, name, w in boot.REG:
        if name in SKIP_CACHES:
            continue
        items = []
        for key, val in w.cache.items():
            args, kwargs = key
            if name == "parse":
                items.append(args[0] + "=>" + ast.dump(val, include_attributes=True))
            elif name == "_group_nodes_in_scope":
                n = args[0]
                items.append("%s@%s:%s=>%d" % (type(n).__name__, getattr(n, "lineno", 0), getattr(n, "col_offset", 0), sum(len(v) for v in val.values())))
            elif name == "compile_template":
                d = _SD_MEMO.get(id(val))
                if d is None or d[0] is not val:
                    d = (val, sdump(val))
                    if len(_SD_MEMO) > 20000:
                        _SD_MEMO.clear()
                    _SD_MEMO[id(val)] = d
                items.append(sdump(args) + sdump(kwargs) + "=>" + d[1])
            else:
                items.append(repr(args) + "=>" + repr(val))
        for it in sorted(items):
            h.update(it.encode("utf-8", "replace"))
        h.update(b"|")
    return h.hexdigest()[:16]


MUTABLE_CACHES = {"parse", "compile_template", "_group_nodes_in_scope"}
_DIG = {}  # (cache name, dumped key) -> structural dump of the value when it was computed


def _on_insert(wrapper, key, val):
    name = wrapper.__name__
    if name in MUTABLE_CACHES:
        _DIG[(name, _keydump(name, key))] = _valdump(name, key, val)


def _keydump(name, key):
    args, kwargs = key
    if name == "_group_nodes_in_scope":
        return ast.dump(args[0], include_attributes=True) if isinstance(args[0], ast.AST) else repr(args)
    return sdump(args) + sdump(kwargs)


def _valdump(name, key, val):
    if name == "parse":
        return ast.dump(val, include_attributes=True)
    if name == "_group_nodes_in_scope":
        # faithful = what a fresh walk of the (possibly mutated) key node gives now
        return None
    return sdump(val)


def unfaithful_entries():
    """Invariant: every cache entry equals a fresh computation from its key.

    For parse the fresh computation is ast.parse(key); for compile_template it is the structural dump recorded
    when the entry was computed (the function is deterministic, so this equals a fresh computation and costs no
    recompilation); for _group_nodes_in_scope it is a fresh walk of the key node. The remaining caches hold
    immutable values (str -> bool, str -> tuple of int) that cannot become unfaithful by mutation."""
    bad = []
    for mod, name, w in boot.REG:
        if name not in MUTABLE_CACHES:
            continue
        for key, val in list(w.cache.items()):
            args, kwargs = key
            try:
                if name == "parse":
                    ok = ast.dump(val, include_attributes=True) == ast.dump(ast.parse(args[0]), include_attributes=True)
                elif name == "_group_nodes_in_scope":
                    fresh = {}
                    for n in ast.walk(args[0]):
                        fresh.setdefault(type(n), []).append(n)
                    ok = {t: [id(x) for x in v] for t, v in val.items()} == {t: [id(x) for x in v] for t, v in fresh.items()}
                else:
                    want = _DIG.get((name, _keydump(name, key)))
                    ok = want is None or want == sdump(val)
            except BaseException:  # noqa: BLE001
                continue
            if not ok:
                what = args[0][:60] if args and isinstance(args[0], str) else type(args[0]).__name__ if args else ""
                bad.append((name, what))
    return bad


import types

copy._deepcopy_dispatch[types.MappingProxyType] = lambda x, memo: types.MappingProxyType(copy.deepcopy(dict(x), memo))


def _register_template_copiers():
    from pyrefact import core

    copy._deepcopy_dispatch[core.Wildcard] = lambda x, memo: core.Wildcard(x.name, copy.deepcopy(x.template, memo), x.common)
    for cls in (core.ZeroOrOne, core.ZeroOrMany, core.OneOrMany):
        copy._deepcopy_dispatch[cls] = (lambda c: lambda x, memo: c(copy.deepcopy(x.template, memo)))(cls)


def snapshot():
    """All caches copied in ONE deepcopy so that identity relations between entries (a cached tree and the
    node-keyed _group_nodes_in_scope entries that point into it) are preserved."""
    ws = [w for mod, name, w in boot.REG if name not in SKIP_CACHES]
    return ws, copy.deepcopy([w.cache for w in ws])


def restore(snap):
    ws, caches = snap
    fresh = copy.deepcopy(caches)
    for w, cache in zip(ws, fresh):
        w.cache.clear()
        w.cache.update(cache)


# ------------------------------------------------------------------------------------------------


def units(tier):
    names = list(progs.ATOMS)
    for n in names:
        deep = (1 if n in D3_SOURCES else 0) if tier == "quick" else (2 if n in progs.CORE else 1)
        yield {"t": "source", "atom": n, "deep": deep}
    for a in (D3_SOURCES[:5] if tier == "quick" else D3_SOURCES):
        yield {"t": "d3", "first": a, "n": 5 if tier == "quick" else 8}
    for q in progs.rules():
        yield {"t": "long", "rule": q, "both": tier == "thorough"}
    core = progs.CORE
    for i in range(0, len(core), 3):
        yield {"t": "fresh", "atoms": core[i : i + 3]}


def _res_eq(a, b):
    return a == b


def run_source(atom, deep, only=None):
    src = progs.build([atom], "module")
    res = {"n": 0, "nontrivial": [], "viol": [], "stats": {}, "samples": [], "extra": {"states": set(), "transitions": 0, "histories": 0}}
    ex = res["extra"]
    all_ops = ops(all_cfgs=deep >= 1)
    base = {}

    def V(kind, site, what, hist):
        desc = {"atom": atom, "history": [list(o) for o in hist]}
        if only is None or desc == only:
            res["viol"].append(violation(site, kind, "%s after %s on atom %s: %s" % (site, [o[1] for o in hist[:-1]], atom, what), desc))

    def site_of(op):
        return op[1] if op[0] == "rule" else ("format_code" if op[0] == "fc" else ("pattern_matching" if op[0] == "pat" else "processing.fix(rollback)"))

    # depth 1
    for op in all_ops:
        boot.clear_caches()
        r = apply_op(op, src)
        base[op] = r
        ex["transitions"] += 1
        ex["histories"] += 1
        res["n"] += 1
        ex["states"].add(state_digest())
        bad = unfaithful_entries()
        if isinstance(r, str) and r != src and not r.startswith("EXC:"):
            res["nontrivial"].append(key_of([atom, op]))
        for cname, what in bad[:1]:
            V("cache_unfaithful:" + cname, site_of(op), "cache entry of %s for %r no longer equals a fresh computation" % (cname, what), [op])
        # depth 2: twice on the same input
        r2 = apply_op(op, src)
        ex["transitions"] += 1
        ex["histories"] += 1
        res["n"] += 1
        ex["states"].add(state_digest())
        if not _res_eq(r, r2):
            V("second_call_differs", site_of(op), "second call on the same input returned a different result", [op, op])
    # depth 2: (format_code, op)
    boot.clear_caches()
    apply_op(("fc", "default"), src)
    snap = snapshot()
    for op in all_ops if deep >= 1 else [o for o in all_ops if o[0] != "rule"]:
        restore(snap)
        r = apply_op(op, src)
        ex["transitions"] += 1
        ex["histories"] += 1
        res["n"] += 1
        ex["states"].add(state_digest())
        if not _res_eq(r, base[op]):
            V("result_depends_on_history", site_of(op), "result after format_code(same text) differs from the fresh result", [("fc", "default"), op])
    if deep:
        rules = [o for o in all_ops if o[0] == "rule"]
        # (op, format_code)
        for op in all_ops:
            boot.clear_caches()
            apply_op(op, src)
            r = apply_op(("fc", "default"), src)
            ex["transitions"] += 2
            ex["histories"] += 1
            res["n"] += 1
            ex["states"].add(state_digest())
            if not _res_eq(r, base[("fc", "default")]):
                V("result_depends_on_history", "format_code", "format_code after %s differs from the fresh result" % (op[1],), [op, ("fc", "default")])
        # every ordered pair of rules
        for op1 in rules if deep >= 2 else ():
            boot.clear_caches()
            apply_op(op1, src)
            snap = snapshot()
            for op2 in rules:
                if op2 == op1:
                    continue
                restore(snap)
                r = apply_op(op2, src)
                ex["transitions"] += 1
                ex["histories"] += 1
                res["n"] += 1
                if not _res_eq(r, base[op2]):
                    V("result_depends_on_history", site_of(op2), "result differs from the fresh result", [op1, op2])
            ex["states"].add(state_digest())
    # non-initial states related to this text: the op has already seen a SUCCESSOR of the text (the result of one
    # rewriting pass of a firing rule, the rule's own fixpoint, format_code's result) - layer added after the seeded change
    # C05-fix-history-hoisted (a per-rule set of texts seen in earlier calls cut the rule's own iteration short)
    firing = [o for o in all_ops if o[0] == "rule" and isinstance(base[o], str) and base[o] != src and not base[o].startswith("EXC:")]
    succ = []
    for o in firing:
        one = _one_pass(o[1], src)
        for u in (one, base[o]):
            if isinstance(u, str) and u != src and not u.startswith("EXC:") and u not in succ:
                succ.append(u)
    fc0 = base.get(("fc", "default"))
    if isinstance(fc0, str) and fc0 != src and not fc0.startswith("EXC:") and fc0 not in succ:
        succ.append(fc0)
    for i, u in enumerate(succ[:5]):
        for op in firing + ([("fc", "default")] if deep >= 1 or i == 0 else []):
            boot.clear_caches()
            apply_op(op, u)
            r = apply_op(op, src)
            ex["transitions"] += 2
            ex["histories"] += 1
            res["n"] += 1
            if not _res_eq(r, base[op]):
                desc = {"atom": atom, "history": [list(op), list(op)], "first_on_successor": i}
                if only is None or desc == only:
                    res["viol"].append(violation(site_of(op), "result_depends_on_history",
                                                 "%s on atom %s after the same call on successor text #%d %r differs from the fresh result" % (op[1], atom, i, u[-60:]), desc))
        ex["states"].add(state_digest())
    if not res["samples"]:
        res["samples"].append({"source": atom, "history": ["format_code(default)", all_ops[10][1]], "compared_with": "fresh result"})
    ex["states"] = sorted(ex["states"])
    return res


def _one_pass(qname, src):
    """The text after ONE rewriting pass of a rule made with processing.fix (its wrapper iterates up to five)."""
    from pyrefact import processing

    f, extra = progs.rules()[qname]
    inner = getattr(f, "_fix_func", None)
    if inner is None or "root_is_static" in extra or "max_line_length" in extra:
        return None
    try:
        boot.clear_caches()
        return processing._apply_rewrites(src, processing._schedule_rewrites(src, [[inner, [src], {}]]))
    except BaseException:  # noqa: BLE001
        return None


def run_d3(first, n=8):
    res = {"n": 0, "nontrivial": [], "viol": [], "stats": {}, "samples": [], "extra": {"states": set(), "transitions": 0, "histories": 0}}
    ex = res["extra"]
    D3 = D3_SOURCES[:n]
    srcs = {a: progs.build([a], "module") for a in D3}
    base = {}
    for a, s in srcs.items():
        boot.clear_caches()
        base[a] = apply_op(("fc", "default"), s)
    for b in D3:
        for c in D3:
            boot.clear_caches()
            apply_op(("fc", "default"), srcs[first])
            apply_op(("fc", "default"), srcs[b])
            r = apply_op(("fc", "default"), srcs[c])
            ex["transitions"] += 3
            ex["histories"] += 1
            res["n"] += 1
            ex["states"].add(state_digest())
            if r != base[c]:
                desc = {"d3": [first, b, c]}
                res["viol"].append(violation("format_code", "result_depends_on_history",
                                             "format_code(%s) after format_code(%s); format_code(%s) differs from the fresh result" % (c, first, b), desc))
            elif r != srcs[c]:
                res["nontrivial"].append(key_of(["d3", first, b, c]))
    res["samples"].append({"history": ["format_code(%s)" % first, "format_code(%s)" % D3_SOURCES[1], "format_code(%s)" % D3_SOURCES[2]]})
    ex["states"] = sorted(ex["states"])
    return res


def run_long(rule, both=True):
    """One rule applied to every source in sequence (forward, then backward) without clearing caches."""
    res = {"n": 0, "nontrivial": [], "viol": [], "stats": {}, "samples": [], "extra": {"states": set(), "transitions": 0, "histories": 2}}
    ex = res["extra"]
    names = list(progs.ATOMS)
    srcs = [progs.build([a], "module") for a in names]
    base = []
    for s in srcs:
        boot.clear_caches()
        base.append(apply_op(("rule", rule), s))
    for direction, order in (("forward", range(len(srcs))), ("backward", range(len(srcs) - 1, -1, -1)))[: 2 if both else 1]:
        boot.clear_caches()
        for i in order:
            r = apply_op(("rule", rule), srcs[i])
            ex["transitions"] += 1
            res["n"] += 1
            if r != base[i]:
                desc = {"long": rule, "direction": direction, "atom": names[i]}
                res["viol"].append(violation(rule, "result_depends_on_history",
                                             "%s on atom %s after applying it to all %s atoms (%s) differs from the fresh result" % (
                                                 rule, names[i], "earlier" if direction == "forward" else "later", direction), desc))
            elif isinstance(r, str) and r != srcs[i]:
                res["nontrivial"].append(key_of(["long", rule, direction, names[i]]))
        # revisit: by now more than 100 other texts went through the parse cache (its capacity), so the entries of
        # the early inputs are evicted while longer-lived caches may still hold objects derived from them (pass added
        # after the seeded change C05-starred-import-identity-vs-evicted-parse)
        if direction == "forward":
            for i in order:
                r = apply_op(("rule", rule), srcs[i])
                ex["transitions"] += 1
                res["n"] += 1
                if r != base[i]:
                    desc = {"long": rule, "direction": "forward_then_revisit", "atom": names[i]}
                    res["viol"].append(violation(rule, "result_depends_on_history",
                                                 "%s on atom %s, applied a second time after a pass over all atoms (cache entries evicted in between), differs from the fresh result" % (
                                                     rule, names[i]), desc))
        ex["states"].add(state_digest())
        bad = unfaithful_entries()
        for cname, what in bad[:1]:
            desc = {"long": rule, "direction": direction, "atom": "<end of history>"}
            res["viol"].append(violation(rule, "cache_unfaithful:" + cname, "after the %s history the %s cache holds an entry for %r that differs from a fresh computation" % (direction, cname, what), desc))
    ex["states"] = sorted(ex["states"])
    return res


FRESH_SNIPPET = (
    "import sys, json\n"
    "import os\nsys.path.insert(0, %r)\n"
    "from mc import boot\nboot.install()\nfrom mc import progs\nprogs.worker_setup()\n"
    "try:\n    out = progs.format_code(progs.build([%r], 'module'), {})\n"
    "except BaseException as e:\n    out = 'EXC:' + type(e).__name__\n"
    "print(json.dumps(out))\n"
)


def run_fresh(atoms):
    """Conformance of 'cleared caches == fresh process': recompute each result in its own fresh interpreter."""
    res = {"n": 0, "nontrivial": [], "viol": [], "stats": {}, "samples": [], "extra": {"states": set(), "transitions": 0, "histories": 0}}
    verif = os.path.dirname(os.path.dirname(os.path.dirname(os.path.abspath(__file__))))
    env = dict(os.environ, PYTHONHASHSEED="0")
    for a in atoms:
        p = subprocess.run([sys.executable, "-c", FRESH_SNIPPET % (verif, a)], capture_output=True, text=True, env=env, cwd=os.getcwd(), timeout=600)
        try:
            fresh = json.loads(p.stdout.strip().splitlines()[-1])
        except Exception:  # noqa: BLE001
            raise RuntimeError("fresh subprocess failed: %s" % p.stderr[-500:])
        # here: after whatever this long-lived worker did before (an arbitrary real history), caches cleared
        boot.clear_caches()
        r = apply_op(("fc", "default"), progs.build([a], "module"))
        res["n"] += 1
        res["extra"]["histories"] += 1
        res["extra"]["transitions"] += 1
        if r != fresh:
            desc = {"fresh": a}
            res["viol"].append(violation("format_code", "differs_from_fresh_process", "format_code(%s) in a long-lived process with cleared caches differs from a fresh process" % a, desc))
        else:
            res["nontrivial"].append(key_of(["fresh", a]))
    res["extra"]["states"] = []
    return res


def run_unit(unit):
    t = unit["t"]
    if t == "source":
        return run_source(unit["atom"], unit["deep"])
    if t == "d3":
        return run_d3(unit["first"], unit.get("n", 8))
    if t == "long":
        return run_long(unit["rule"], unit.get("both", True))
    return run_fresh(unit["atoms"])


def replay(desc):
    progs.worker_setup()
    if "history" in desc:
        vs = run_source(desc["atom"], 2 if len(desc["history"]) == 2 and desc["history"][0][0] == "rule" and desc["history"][1][0] == "rule" and desc["history"][0] != desc["history"][1] else 1, only=desc)["viol"]
        return [v for v in vs if v["desc"] == desc]
    if "d3" in desc:
        return [v for v in run_d3(desc["d3"][0])["viol"] if v["desc"] == desc]
    if "long" in desc:
        return [v for v in run_long(desc["long"])["viol"] if v["desc"] == desc]
    return [v for v in run_fresh([desc["fresh"]])["viol"] if v["desc"] == desc]


def finish(tier, agg):
    states, transitions, histories = set(), 0, 0
    for ex in agg["extra"]:
        states.update(ex["states"])
        transitions += ex["transitions"]
        histories += ex["histories"]
    return {
        "states": len(states),
        "transitions": transitions,
        "traces_validated_against_impl": histories,
        "explanation": "states = distinct contents of all pyrefact caches (structural dump) reached; transitions = real API calls "
                       "executed; every history is an execution of the implementation and is compared with the empty-history result",
    }
