"""C04 - the formatter is total: never raises, always terminates, invalid input handed back."""
from __future__ import annotations

import ast
import os
import textwrap
import time
import traceback

from mc import boot, corpus, exprs, progs
from mc.kernel import CaseTimeout, key_of, time_limit, violation
from mc.props import c03, c15

ID = "C04"
LEVEL = "exploration"
RULE = (
    "a case = (input string, entry point, configuration). inputs: (i) everything C03 enumerates (atom programs, "
    "construct corpus in 5 placements, repository examples); (ii) every depth<=1 constant expression over {0,1,None,'a',x} without comparison chains "
    "(thorough: full alphabet) in the consumer positions if / while / and-or; (iii) every atom without the "
    "prelude as only statement with and without trailing newline, and as last statement of an if body / def body at "
    "end of file; (iv) for every construct: every line prefix, every prefix ending inside the last line, and tab / "
    "form-feed / CR variants (invalid inputs); (v) degenerate calls: 31 builtin / library functions the rules pattern-match on x 19 missing, empty or "
    "ill-shaped argument lists in 4 positions; (vi) scaling family of the self-recursive rules, n in {1,5,50} "
    "(thorough: 120; the rules are polynomial, see units()); (vii) 28 constant expressions whose value is astronomically large or slow "
    "(9 ** 9 ** 9 ** 9, 'a' * 10 ** 10, 0.5 in range(10 ** 11), ...) in 5 positions, each call in a hard-killed child process with 20 CPU seconds; (viii) runs of 30 and 60 blank / whitespace-only lines of 6 kinds in 9 places "
    "(module, def, class, inside a string, inside brackets, invalid fragment), same child process. entry points: format_code under default and safe (thorough: + keep_imports, preserve), "
    "and every rule on inputs that parse. oracle: no exception of any kind escapes, result is a str, < 300 CPU seconds per call, and an "
    "input that is invalid even after dedent comes back equal up to whitespace. non-trivial = the call got past the "
    "validity gate (valid input) or exercised the hand-back path (invalid input)"
)
ASSUMPTIONS = [
    "time limit is 300 s CPU per call inside a worker (typical 0.05-0.5 s); slower-but-finishing is not reported",
    "rules are only called on inputs that parse (they are documented as source -> source on Python code)",
]


HUGE_CPU_LIMIT = 20  # CPU seconds for one call on a "huge constant" input (answers take milliseconds or never come)
CPU_LIMIT = 300  # CPU seconds per call (typical 0.05-0.5 s; the slowest admitted scaling case needs ~25 s)


def worker_init():
    progs.worker_setup()


def strip_ws(s):
    return "".join(ch for ch in s if not ch.isspace())


SCALE = {
    "move_before_loop": lambda n: "r = []\nfor i in range(3):\n" + "".join("    k%d = %d\n" % (j, j) for j in range(n)) + "    r.append(i)\nprint(r)\n",
    "context_manager": lambda n: "".join("f%d = open('a%d')\nx%d = f%d.read()\nf%d.close()\n" % (j, j, j, j, j) for j in range(n)),
    "duplicate_imports": lambda n: "".join("import os\nimport sys\nfrom os import path\n" for j in range(n)) + "print(os, sys, path)\n",
    "if_control_flow": lambda n: "def f(c, a, b):\n" + "".join("    if c:\n        print(a + %d)\n        print(a)\n        print(a * 2)\n    else:\n        print(b + %d)\n        print(b)\n        print(b * 2)\n" % (j, j) for j in range(n)),
    "nested_ifs": lambda n: "".join("    " * j + "if x%d:\n" % j for j in range(n)) + "    " * n + "pass\n",
    "long_boolop": lambda n: "y = " + " and ".join("x > %d" % j for j in range(n + 1)) + "\n",
    "many_functions": lambda n: "".join("def f%d(a):\n    return a + %d\n" % (j, j % 3) for j in range(n)) + "print(f0(1))\n",
}


DEGENERATE_FUNCS = ["sum", "len", "sorted", "list", "set", "dict", "tuple", "range", "zip", "enumerate", "map", "filter", "iter",
                    "next", "reversed", "min", "max", "any", "all", "isinstance", "print", "str", "int", "open", "super",
                    "itertools.chain", "heapq.nsmallest", "np.matmul", "np.dot", "logging.info", "collections.defaultdict"]
DEGENERATE_ARGS = ["", "[]", "()", "{}", "set()", "''", "None", "[x for x in []]", "(x for x in ())", "range()", "range(1, 2, 3, 4)",
                   "*a", "**k", "*[], **{}", "[], []", "lambda: 0", "x=1", "[[]]", "..."]


# long runs of blank / whitespace-only lines (family added after the seeded change C04-blank-line-regex-order-
# backtracking: a regex that backtracks exponentially in the length of such a run); run in a hard-killed child
BLANK_KINDS = {"empty": "\n", "spaces": "    \n", "tab": "\t\n", "mixed": " \n\n\t \n", "formfeed": "\x0c\n", "cr": "\r\n"}
BLANK_PLACES = {
    "module_middle": lambda run: "a = 1\n" + run + "b = 2\nprint(a, b)\n",
    "module_start": lambda run: run + "a = 1\nprint(a)\n",
    "module_end": lambda run: "a = 1\nprint(a)\n" + run,
    "in_def": lambda run: "def f(x):\n    y = x\n" + run + "    return y\nprint(f(1))\n",
    "after_def": lambda run: "def f(x):\n    return x\n" + run + "print(f(1))\n",
    "in_class_before_method": lambda run: "class K:\n    a = 1\n" + run + "    def m(self):\n        return self.a\nprint(K().m())\n",
    "in_string": lambda run: "s = '''x\n" + run + "y'''\nprint(len(s))\n",
    "in_parens": lambda run: "r = [\n    1,\n" + run + "    2,\n]\nprint(r)\n",
    "invalid_fragment": lambda run: "    a = 1\n" + run + "  b = (\n",
}


def blank_run_program(kind, n, place):
    return BLANK_PLACES[place](BLANK_KINDS[kind] * n)


def degenerate_calls(func):
    """Builtin / library calls the rules pattern-match on, with missing, empty or ill-shaped arguments (family added
    after a sub-agent reported sum(range()) and sum([]) crashing the formatter)."""
    for a in DEGENERATE_ARGS:
        yield a, "import itertools, heapq, logging, collections\nimport numpy as np\ndef g(a, k, x):\n    return %s(%s)\nprint(%s(%s))\nfor i in %s(%s):\n    print(i)\nv = [j for j in %s(%s)]\n" % (
            func, a, func, a, func, a, func, a)


def position_variants(name):
    code = progs.ATOMS[name]["code"]
    ind = lambda s, k: textwrap.indent(s, " " * k)
    yield "bare", code
    yield "bare_nonl", code.rstrip("\n")
    yield "last_in_if", "if p:\n" + ind(code, 4)
    yield "last_in_if_nonl", ("if p:\n" + ind(code, 4)).rstrip("\n")
    yield "last_in_def", "def f():\n" + ind(code, 4)
    yield "last_in_else", "if p:\n    pass\nelse:\n" + ind(code, 4)
    yield "last_in_loop", "for it in xs:\n" + ind(code, 4)


def invalid_variants(name):
    src = corpus.CONSTRUCTS[name]
    lines = src.splitlines(keepends=True)
    for i in range(1, len(lines)):
        yield "lines[:%d]" % i, "".join(lines[:i])
    if lines:
        last = lines[-1].rstrip("\n")
        head = "".join(lines[:-1])
        for j in range(1, len(last)):
            yield "lastline[:%d]" % j, head + last[:j]
    yield "tabbed", src.replace("    ", "\t")
    yield "formfeed", "\x0c" + src
    yield "cr", src.replace("\n", "\r")
    yield "mixed_indent", src.replace("\n    ", "\n \t")


def units(tier):
    for u in c03.units(tier):
        if u["t"] == "text":
            yield {"t": "ref", "ref": u["ref"]}
    ex = exprs.depth1_tiny() if tier == "quick" else exprs.depth1_full()
    ex = list(ex)
    for i in range(0, len(ex), 16):
        yield {"t": "expr", "exprs": ex[i : i + 16]}
    for n in progs.ATOMS:
        yield {"t": "pos", "atom": n}
    for n in corpus.CONSTRUCTS:
        yield {"t": "invalid", "construct": n}
    for f in DEGENERATE_FUNCS:
        yield {"t": "degenerate", "func": f}
    for e in progs.HUGE_EXPRS:
        yield {"t": "huge", "expr": e}
    for kind in BLANK_KINDS:
        for n in (30, 60):
            yield {"t": "blankrun", "kind": kind, "n": n}
    for fam in SCALE:
        # the recursive rules are polynomial, not linear (measured: move_before_loop ~n^2.7, 104 CPU s at n=200;
        # simplify_if_control_flow under safe ~n^2.1, 324 s at n=200; missing_context_manager 680 s at n=400): slow, not
        # non-terminating, so the largest size is chosen to finish well inside the 300 s limit
        sizes = (1, 5, 50) if tier == "quick" else (1, 5, 50, 120)
        for n in sizes:
            yield {"t": "scale", "family": fam, "n": n}


def _call(entry, src, cfg):
    """-> (status, value): ok/raise/timeout"""
    boot.clear_caches()
    t0 = time.time()
    try:
        with time_limit(CPU_LIMIT, cpu=True):
            if entry == "format_code":
                out = progs.format_code(src, cfg)
            else:
                out = progs.call_rule(entry, src)
    except CaseTimeout:
        return "timeout", None, float(CPU_LIMIT)
    except BaseException as e:  # noqa: BLE001
        tb = traceback.extract_tb(e.__traceback__)
        inner = [fr for fr in tb if "/pyrefact/" in fr.filename]
        where = "%s:%s" % (os.path.basename(inner[-1].filename)[:-3], inner[-1].name) if inner else "?"
        rule = None
        for fr in inner:
            if os.path.basename(fr.filename) not in ("main.py", "processing.py", "core.py"):
                rule = "%s.%s" % (os.path.basename(fr.filename)[:-3], fr.name)
                break
        return "raise", (type(e).__name__, where, rule, str(e)[:80]), time.time() - t0
    return "ok", out, time.time() - t0


def check_input(src, label, tier, with_rules=True, cfgs=None, only=None):
    res = {"n": 0, "nontrivial": [], "viol": [], "stats": {}, "samples": []}
    st = res["stats"]
    lv = c03.level(src)
    st["inputs_level_%d" % lv] = 1
    cfgs = cfgs or (["default", "safe"] if tier == "quick" else ["default", "safe", "keep_imports", "preserve_x"])
    entries = [("format_code", c) for c in cfgs]
    if with_rules and lv >= 2:
        entries += [(q, None) for q in progs.rules()]
    for entry, cname in entries:
        ep = entry if cname is None else "format_code:" + cname
        if only and ep != only:
            continue
        cfg = {"default": {}, "safe": {"safe": True}, "keep_imports": {"keep_imports": True},
               "preserve_x": {"preserve": ["x", "f", "a", "r", "g"]}, None: None}[cname]
        desc = {"input": label, "entry": ep}
        res["n"] += 1
        if label[0] in ("huge", "blankrun"):
            # hard-killed child: a regression here spins inside one C call, where no signal handler runs
            got = progs.isolated(_call, entry, src, cfg, cpu_limit=HUGE_CPU_LIMIT)
            status, val, dt = got[1] if got[0] == "ok" and len(got[1]) == 3 else ("killed", got[1], float(HUGE_CPU_LIMIT))
        else:
            status, val, dt = _call(entry, src, cfg)
        if status == "killed":
            res["viol"].append(violation(entry, "timeout", "%s on %s: %s" % (ep, label, val), desc, key=key_of(desc)))
            continue
        if dt > 5:
            st["calls_over_5s"] = st.get("calls_over_5s", 0) + 1
        k = key_of(desc)
        if status == "raise":
            etype, where, rule, msg = val
            site = rule or (entry if entry != "format_code" else where)
            res["viol"].append(violation(site, "raises:" + etype, "%s on %s raised %s at %s: %s" % (ep, label, etype, where, msg), desc, key=k))
            continue
        if status == "timeout":
            res["viol"].append(violation(entry, "timeout", "%s on %s did not return within 300 CPU seconds" % (ep, label), desc, key=k))
            continue
        if not isinstance(val, str):
            res["viol"].append(violation(entry, "not_a_string", "%s on %s returned %s" % (ep, label, type(val).__name__), desc, key=k))
            continue
        if entry == "format_code":
            res["nontrivial"].append(k)
            if lv == 0 and strip_ws(val) != strip_ws(src):
                res["viol"].append(violation("format_code", "invalid_input_altered", "%s: %r -> %r" % (label, src[:60], val[:60]), desc, key=k))
            elif not res["samples"]:
                res["samples"].append({"input": label, "entry": ep, "level": lv, "ms": int(dt * 1000)})
        elif val != src:
            res["nontrivial"].append(k)
    return res


def _merge(a, b):
    a["n"] += b["n"]
    a["nontrivial"] += b["nontrivial"]
    a["viol"] += b["viol"]
    for k, v in b["stats"].items():
        a["stats"][k] = a["stats"].get(k, 0) + v
    if not a["samples"]:
        a["samples"] = b["samples"]
    return a


def _inputs_of(unit):
    t = unit["t"]
    if t == "ref":
        yield unit["ref"], c03.get_input(unit["ref"]), True
    elif t == "expr":
        for e in unit["exprs"]:
            for pos in ("if", "while", "andor"):
                yield ["expr", e, pos], c15.consumer_program(e, pos), "expr"
    elif t == "pos":
        for v, src in position_variants(unit["atom"]):
            yield ["pos", unit["atom"], v], src, v in ("bare", "last_in_if", "last_in_def")
    elif t == "invalid":
        for v, src in invalid_variants(unit["construct"]):
            yield ["invalid", unit["construct"], v], src, False
    elif t == "degenerate":
        for a, src in degenerate_calls(unit["func"]):
            yield ["degenerate", unit["func"], a], src, True
    elif t == "scale":
        yield ["scale", unit["family"], unit["n"]], SCALE[unit["family"]](unit["n"]), unit["n"] <= 50
    elif t == "huge":
        for pos in progs.HUGE_POSITIONS:
            yield ["huge", unit["expr"], pos], progs.huge_program(unit["expr"], pos), True
    elif t == "blankrun":
        for place in BLANK_PLACES:
            yield ["blankrun", unit["kind"], unit["n"], place], blank_run_program(unit["kind"], unit["n"], place), "layout"


def resolve(label):
    if label[0] in ("atom", "construct", "example", "stdlib"):
        return c03.get_input(label)
    if label[0] == "expr":
        return c15.consumer_program(label[1], label[2])
    if label[0] == "pos":
        return dict(position_variants(label[1]))[label[2]]
    if label[0] == "invalid":
        return dict(invalid_variants(label[1]))[label[2]]
    if label[0] == "degenerate":
        return dict(degenerate_calls(label[1]))[label[2]]
    if label[0] == "scale":
        return SCALE[label[1]](label[2])
    if label[0] == "huge":
        return progs.huge_program(label[1], label[2])
    if label[0] == "blankrun":
        return blank_run_program(label[1], label[2], label[3])
    raise KeyError(label)


def run_unit(unit):
    tier = os.environ.get("MC_TIER", "quick")
    res = {"n": 0, "nontrivial": [], "viol": [], "stats": {}, "samples": []}
    for label, src, with_rules in _inputs_of(unit):
        cfgs = None
        if with_rules == "expr":
            with_rules = False
            cfgs = ["default"] if tier == "quick" else ["default", "safe"]
        if with_rules == "layout":
            with_rules = False
            cfgs = ["default"]
        _merge(res, check_input(src, label, tier, with_rules=with_rules, cfgs=cfgs))
    return res


def replay(desc):
    progs.worker_setup()
    src = resolve(desc["input"])
    return check_input(src, desc["input"], "thorough", with_rules=True, only=desc["entry"])["viol"]


def explain(desc):
    return "input text:\n" + resolve(desc["input"])
