"""C01 - the whole pipeline preserves program behaviour (format_code x configuration, execution oracle)."""
from __future__ import annotations

import ast

from mc import boot, progs
from mc.kernel import key_of, violation

ID = "C01"
LEVEL = "exploration"
RULE = (
    "a case = (closed program, configuration); programs as in C02 (every atom alone in 4 contexts, every ordered "
    "pair of core atoms in module/function context; thorough: also every ordered pair of any atom with a core atom and core triples); configurations "
    "for single-atom programs in module context: default, safe, keep_imports, preserve=all top-level names, "
    "safe+keep_imports+preserve-all, in the other contexts default and safe (thorough: all five everywhere, plus each "
    "single top-level name preserved and max_line_length=60); for longer programs: default in module context and "
    "safe in function context (thorough: both in both); format_code is run with empty caches, original and result are executed and "
    "stdout compared; non-trivial = format_code changed the text"
)
ASSUMPTIONS = [
    "programs are closed, deterministic and terminate normally (checked by running the original first)",
    "a format_code call that raises is C04's business (blocked here)",
    "culprit stage = the traced pipeline step that follows the last intermediate text still equivalent to the input",
]

CFGS1 = ["default", "safe", "keep_imports", "preserve_all", "safe_keep_preserve"]
CFGS2 = ["default", "safe"]


def worker_init():
    progs.worker_setup()


def toplevel_names(src):
    names = []
    for node in ast.parse(src).body:
        if isinstance(node, (ast.FunctionDef, ast.AsyncFunctionDef, ast.ClassDef)):
            names.append(node.name)
        elif isinstance(node, (ast.Assign, ast.AnnAssign, ast.AugAssign)):
            targets = node.targets if isinstance(node, ast.Assign) else [node.target]
            for t in targets:
                for n in ast.walk(t):
                    if isinstance(n, ast.Name):
                        names.append(n.id)
    return sorted(set(names))


def make_cfg(name, src):
    if name == "default":
        return {}
    if name == "safe":
        return {"safe": True}
    if name == "keep_imports":
        return {"keep_imports": True}
    if name == "preserve_all":
        return {"preserve": toplevel_names(src)}
    if name == "safe_keep_preserve":
        return {"safe": True, "keep_imports": True, "preserve": toplevel_names(src)}
    if name == "mll60":
        return {"mll": 60}
    if name.startswith("preserve:"):
        return {"preserve": [name[9:]]}
    raise ValueError(name)


def units(tier):
    for p in progs.program_space(tier):
        if len(p["atoms"]) == 1:
            cfgs = list(CFGS1) if (p["ctx"] == "module" or tier == "thorough") else list(CFGS2)
            if tier == "thorough":
                cfgs += ["mll60", "preserve_each"]
        elif tier == "quick":
            cfgs = ["default"] if p["ctx"] == "module" else ["safe"]
        else:
            cfgs = list(CFGS2)
        yield {"prog": p, "cfgs": cfgs}


def _check(prog_desc, cfg_names):
    src = progs.build(prog_desc["atoms"], prog_desc["ctx"])
    orig = progs.run_prog(src)
    res = {"n": 0, "nontrivial": [], "viol": [], "stats": {}, "samples": []}
    st = res["stats"]
    if orig[0] != "ok":
        st["program_not_admitted"] = 1
        return res
    expanded = []
    for c in cfg_names:
        if c == "preserve_each":
            expanded += ["preserve:" + n for n in toplevel_names(src) if n not in ("LOG", "FIXTURE")]
        else:
            expanded.append(c)
    for cname in expanded:
        cfg = make_cfg(cname, src)
        desc = {"prog": prog_desc, "cfg": cname}
        res["n"] += 1
        boot.clear_caches()
        try:
            out = progs.format_code(src, cfg)
        except BaseException as e:  # noqa: BLE001
            st["blocked_by_C04"] = st.get("blocked_by_C04", 0) + 1
            continue
        if out == src:
            continue
        k = key_of(desc)
        res["nontrivial"].append(k)
        c = progs.compare(orig, out)
        if c is None:
            st["changed_and_equivalent"] = st.get("changed_and_equivalent", 0) + 1
            continue
        site, steps = progs.culprit(src, cfg, orig)
        res["viol"].append(violation(site, c[0], "%s cfg=%s: %s" % (prog_desc, cname, c[1]), desc, key=k))
    if not res["samples"] and res["nontrivial"] and len(prog_desc["atoms"]) == 1:
        res["samples"].append({"program": prog_desc, "cfgs": expanded})
    return res


def run_unit(unit):
    return _check(unit["prog"], unit["cfgs"])


def replay(desc):
    progs.worker_setup()
    return _check(desc["prog"], [desc["cfg"]])["viol"]


def explain(desc):
    src = progs.build(desc["prog"]["atoms"], desc["prog"]["ctx"])
    cfg = make_cfg(desc["cfg"], src)
    orig = progs.run_prog(src)
    boot.clear_caches()
    out = progs.format_code(src, cfg)
    site, steps = progs.culprit(src, cfg, orig)
    import difflib

    lines = ["culprit stage: %s" % site, "steps: %s" % [s[0] for s in steps]]
    for name, b, a in steps:
        if name == site:
            lines += list(difflib.unified_diff(b.splitlines(), a.splitlines(), lineterm="", n=1))[:40]
            break
    lines.append("original outcome: %r" % (orig,))
    lines.append("new outcome:      %r" % (progs.run_prog(out),))
    return "\n".join(lines)
