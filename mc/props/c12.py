"""C12 - pattern matching agrees with its declarative semantics (exhaustive pattern x tree enumeration vs reference)."""
from __future__ import annotations

import ast
import itertools
import os

from mc import corpus, refmatch
from mc.kernel import key_of, violation

ID = "C12"
LEVEL = "exploration"
RULE = (
    "space 1 (list quantifiers): every template list of length <= 3 (thorough 4) over {a, b, {{x}}, {{y}}, {{x?}}, "
    "{{x*}}, {{x+}}, {{...}}, {{...?}}, {{...*}}, {{...+}}} x every subject list of length <= 4 (thorough 5) over "
    "{a, b, c} in 5 list contexts (call arguments, list display, tuple, statement body of an if, from-import names); "
    "space 2 (trees): every expression/statement tree of the depth<=2 grammar x every pattern obtained from a tree by "
    "replacing <= 2 subtrees with wildcards (distinct names, same name, typed), plus type / tuple / set templates, plus "
    "self-match of every tree and of every statement of the construct corpus; space 3 (search): every sequence of <= 3 "
    "(thorough 4 over a smaller alphabet) statements placed in each body kind (module, def, class, if, else, for, "
    "for-else, while, with, nested def/if, if+else / for+else / while+else with the statements in both, statements followed by an "
    "if/else, elif chain) x expression, statement and statement-sequence patterns through finditer, compared with an "
    "independent occurrence finder. oracle: bool(implementation) == bool(reference), plain named bindings equal, "
    "reported occurrences equal. non-trivial = the reference says 'match' / at least one occurrence"
)
RULE += (" search space also with ALTERNATIVES: every ordered pair (and four triples) of the single-node patterns passed as a tuple; reference = "
         "union of the occurrences of each alternative, each node reported once.")
ASSUMPTIONS = [
    "reference semantics: every element absorbed by a named quantified wildcard is the same tree (pinned by the "
    "repository's tests); a name used with two quantifier kinds is outside the pattern language (must not compile)",
    "statement-sequence occurrences are claimed only for the bodies the property lists (no try/finally/match bodies)",
]

T_ELEMS = ["a", "b", "{{x}}", "{{y}}", "{{x?}}", "{{x*}}", "{{x+}}", "{{...}}", "{{...?}}", "{{...*}}", "{{...+}}"]
S_ELEMS = ["a", "b", "c"]
CONTEXTS = ["call", "list", "tuple", "body", "import"]


def render(ctx, elems):
    if ctx == "call":
        return "f(" + ", ".join(elems) + ")"
    if ctx == "list":
        return "[" + ", ".join(elems) + "]"
    if ctx == "tuple":
        return "(" + ", ".join(elems) + ("," if len(elems) == 1 else "") + ")"
    if ctx == "body":
        return "if c:\n" + "".join("    %s\n" % e for e in elems) if elems else None
    if ctx == "import":
        return "from m import " + ", ".join(elems) if elems else None
    raise ValueError(ctx)


def subject_node(src):
    stmt = ast.parse(src).body[0]
    return stmt.value if isinstance(stmt, ast.Expr) else stmt


# ------------------------------------------------------------------------------------------------
# tree grammar (space 2)

_TREES = None


def trees():
    global _TREES
    if _TREES is not None:
        return _TREES
    e0 = ["a", "b", "1", "'s'", "True"]
    small = ["a", "b", "1"]
    e1 = ["f(%s)" % x for x in e0]
    e1 += ["g(%s, %s)" % (x, y) for x in small for y in small]
    e1 += ["%s + %s" % (x, y) for x in small for y in small]
    e1 += ["%s.m" % x for x in ("a", "b")] + ["%s[%s]" % (x, y) for x in ("a", "b") for y in small]
    e1 += ["[%s, %s]" % (x, y) for x in small for y in small] + ["[]", "f()"]
    inner = ["f(a)", "f(b)", "a + b", "a + a", "a.m", "a[1]", "[a, b]", "g(a, a)", "g(a, b)"]
    e2 = ["f(%s)" % x for x in inner] + ["g(%s, %s)" % (x, y) for x in inner[:5] for y in ["a"] + inner[:3]]
    e2 += ["%s + %s" % (x, y) for x in inner[:5] for y in ["a"] + inner[:3]]
    e2 += ["(%s).m" % x for x in inner[:4]] + ["[%s, %s]" % (x, y) for x in inner[:3] for y in inner[:3]]
    exprs_ = e0 + e1 + e2
    stmts = ["t = %s" % x for x in e0 + inner] + ["%s = 1" % x for x in ("a.m", "a[1]")]
    stmts += ["if %s:\n    t = %s" % (x, y) for x in ("a", "f(a)") for y in ("a", "f(a)", "1")]
    stmts += ["if a:\n    t = 1\nelse:\n    t = b", "return a", "return f(a)", "def h(a):\n    return a", "for a in b:\n    f(a)"]
    _TREES = exprs_ + stmts
    return _TREES


def holes(src):
    """Patterns obtained from a tree by replacing <= 2 child subtrees with wildcards -> list of (pattern, typed)"""
    node = subject_node(src)
    subs = []
    for n in ast.walk(node):
        if n is node:
            continue
        if isinstance(n, ast.expr) and not isinstance(getattr(n, "ctx", None), (ast.Store, ast.Del)):
            subs.append(n)
    out = []

    def fill(assign):
        class T(ast.NodeTransformer):
            def visit(self, n):
                for k, (target, name) in enumerate(assign):
                    if n is target:
                        return ast.Name(id="HOLE%d_" % k, ctx=ast.Load())
                return super().visit(n)

        import copy

        # rebuild on a copy; identity lookup needs the originals, so map by position instead
        idx = {id(t): nm for t, nm in assign}
        order = []
        for n in ast.walk(node):
            if id(n) in idx:
                order.append(idx[id(n)])
        clone = copy.deepcopy(node)
        k = 0
        targets = [n for n in ast.walk(node) if id(n) in idx]
        pos = [i for i, n in enumerate(ast.walk(node)) if id(n) in idx]
        clone_nodes = list(ast.walk(clone))
        mapping = {id(clone_nodes[i]): idx[id(list(ast.walk(node))[i])] for i in pos}

        class T2(ast.NodeTransformer):
            def visit(self, n):
                if id(n) in mapping:
                    return ast.Name(id="HOLE_%s_" % mapping[id(n)], ctx=ast.Load())
                return super().visit(n)

        txt = ast.unparse(ast.fix_missing_locations(T2().visit(clone)))
        for nm in set(mapping.values()):
            txt = txt.replace("HOLE_%s_" % nm, "{{%s}}" % nm)
        return txt

    for s in subs:
        out.append((fill([(s, "x")]), None))
    for s1, s2 in itertools.combinations(subs, 2):
        inside = any(c is s2 for c in ast.walk(s1)) or any(c is s1 for c in ast.walk(s2))
        if inside:
            continue
        out.append((fill([(s1, "x"), (s2, "y")]), None))
        out.append((fill([(s1, "x"), (s2, "x")]), None))
    seen, res = set(), []
    for p in out:
        if p not in seen:
            seen.add(p)
            res.append(p)
    return res


TYPED = {"Name": ast.Name, "Constant": ast.Constant, "Call": ast.Call}

# ------------------------------------------------------------------------------------------------
# search space (space 3)

STMTS3 = ["a", "f(a)", "t = f(a)", "t = b", "f(f(a))"]
BODIES = {
    "module": "{B}",
    "def": "def o():\n{I}",
    "class": "class K:\n{I}",
    "if": "if q:\n{I}",
    "else": "if q:\n    pass\nelse:\n{I}",
    "for": "for i in r:\n{I}",
    "for_else": "for i in r:\n    pass\nelse:\n{I}",
    "while": "while q:\n{I}",
    "with": "with cm:\n{I}",
    "nested": "def o():\n    if q:\n{II}\n    return 0",
    # the same statements in the main body AND in the else body (the main body is as long as any pattern)
    "if_else_both": "if q:\n{I}else:\n{I}",
    "for_else_both": "for i in r:\n{I}else:\n{I}",
    "while_else_both": "while q:\n{I}else:\n{I}",
    # a body whose last statement is itself an if/else holding the statements
    "stmts_then_ifelse": "{B}if q:\n    z = 0\nelse:\n{I}",
    "elif_chain": "if q:\n{I}elif q2:\n{I}else:\n{I}",
}
SEARCH_PATTERNS = ["a", "f({{x}})", "f(a)", "t = {{v}}", "{{x}} = f({{y}})", "f(f({{x}}))", "{{f}}(a)",
                   "a\nf(a)", "t = {{v}}\nt = {{w}}", "t = {{v}}\nt = {{v}}", "{{s}}\nf(a)", "f(a)\n{{...}}", "a\na",
                   "t = {{v}}\n{{...}}\nt = {{w}}"]


# alternatives: a tuple of patterns matches where any of them matches, each node reported once (family added after the
# seeded change C12-walk-wildcard-tuple-tried-not-yielded: a node that fails an earlier alternative of the same root
# type and matches a later one was skipped). All ordered pairs and a few triples of the single-node patterns.
_SINGLE = [p for p in SEARCH_PATTERNS if "\n" not in p] + ["t = b", "{{x}} = {{y}}", "f(f(a))", "{{g}}({{x}})", "b"]
ALT_PATTERNS = [[a, b] for a in _SINGLE for b in _SINGLE if a != b] + [
    ["f(a)", "f(f({{x}}))", "f({{x}})"], ["t = b", "t = f(a)", "t = {{v}}"], ["{{f}}(a)", "a", "f({{x}})"], ["b", "a", "f"]]


def place(kind, stmts):
    ind = lambda k: "".join(" " * k + s + "\n" for s in stmts)
    tmpl = BODIES[kind]
    return tmpl.replace("{B}", ind(0)).replace("{II}", ind(8).rstrip("\n")).replace("{I}", ind(4))


# ------------------------------------------------------------------------------------------------


def units(tier):
    tmax = 3 if tier == "quick" else 4
    for ctx in CONTEXTS:
        for tl in range(0, tmax + 1):
            if tl <= 1:
                yield {"t": "list", "ctx": ctx, "tl": tl, "first": None}
            else:
                for first in T_ELEMS:
                    yield {"t": "list", "ctx": ctx, "tl": tl, "first": first}
    n = len(trees())
    for i in range(0, n, 4):
        yield {"t": "tree", "range": [i, min(n, i + 4)]}
    yield {"t": "direct"}
    yield {"t": "twice"}
    for name in corpus.CONSTRUCTS:
        yield {"t": "self", "construct": name}
    smax = 3 if tier == "quick" else 4
    for kind in BODIES:
        for k in range(1, smax + 1):
            alphabet = STMTS3 if k <= 3 else STMTS3[:3]
            for first in alphabet:
                yield {"t": "search", "kind": kind, "k": k, "first": first}


def _impl_match(psrc, node, typed=None):
    """-> ("rejected", exc) | ("ok", match tuple)"""
    from pyrefact import core

    try:
        kw = {k: v for k, v in (typed or {}).items()}
        template = core.compile_template(psrc, **kw)
    except Exception as e:  # noqa: BLE001
        return ("rejected", type(e).__name__)
    try:
        return ("ok", core.match_template(node, template))
    except Exception as e:  # noqa: BLE001
        return ("raised", type(e).__name__)


def _ref(psrc):
    try:
        return refmatch.parse_pattern(psrc)
    except refmatch.PatternError:
        return None
    except SyntaxError:
        return None


def check_pair(psrc, ssrc, typed=None):
    """One (pattern, subject) pair -> (violations, ref_matches)"""
    desc = {"pattern": psrc, "subject": ssrc, "typed": sorted((typed or {}).items())}
    node = subject_node(ssrc)
    ref_t = _ref(psrc)
    tkw = {k: TYPED[v] for k, v in (typed or {}).items()}
    st, got = _impl_match(psrc, node, tkw)
    if ref_t is None:
        if st == "ok" and got:
            return [violation("compile_template", "invalid_pattern_accepted_and_matched", "%r matched %r" % (psrc, ssrc), desc)], False
        return [], False
    if st == "rejected":
        return [violation("compile_template", "valid_pattern_rejected", "%r rejected (%s)" % (psrc, got), desc)], False
    if st == "raised":
        return [violation("match_template", "raised:" + got, "%r vs %r" % (psrc, ssrc), desc)], False
    envs = list(itertools.islice(refmatch.match(ref_t, node), 50))
    if typed:
        envs = [e for e in envs if all(_typed_ok(e.get(k), v) for k, v in typed.items())]
    want = bool(envs)
    if bool(got) != want:
        kind = "false_positive" if got else "false_negative"
        return [violation("match_template", kind, "pattern %r subject %r: implementation %s, reference %s" % (
            psrc, ssrc, bool(got), want), desc)], want
    if want and hasattr(got, "_fields"):
        for name in got._fields:
            val = getattr(got, name)
            if name == "root" or not isinstance(val, ast.AST):
                continue
            d = refmatch.dump(val)
            if name in envs[0] and not any(e.get(name) == d for e in envs):
                return [violation("match_template", "binding_differs", "pattern %r subject %r: %s bound to %s" % (
                    psrc, ssrc, name, ast.unparse(val)), desc)], want
    return [], want


def _typed_ok(dumped, tname):
    return dumped is not None and dumped.startswith(tname + "(")


def _new():
    return {"n": 0, "nontrivial": [], "viol": [], "stats": {}, "samples": []}


def run_list(unit, tier):
    res = _new()
    smax = 4 if tier == "quick" else 5
    ctx = unit["ctx"]
    tl = unit["tl"]
    if tl <= 1:
        tmpls = list(itertools.product(T_ELEMS, repeat=tl))
    else:
        tmpls = [(unit["first"],) + rest for rest in itertools.product(T_ELEMS, repeat=tl - 1)]
    subjects = [s for sl in range(0, smax + 1) for s in itertools.product(S_ELEMS, repeat=sl)]
    for tmpl in tmpls:
        psrc = render(ctx, list(tmpl))
        if psrc is None:
            continue
        for subj in subjects:
            ssrc = render(ctx, list(subj))
            if ssrc is None:
                continue
            v, want = check_pair(psrc, ssrc)
            res["n"] += 1
            if want:
                res["nontrivial"].append(key_of([psrc, ssrc]))
                if not res["samples"] and len(tmpl) >= 2 and any("*" in t or "+" in t for t in tmpl):
                    res["samples"].append({"pattern": psrc, "subject": ssrc, "matches": True})
            res["viol"].extend(v)
    return res


def run_tree(unit):
    res = _new()
    ts = trees()
    for i in range(*unit["range"]):
        src = ts[i]
        pats = [(src, None)] + holes(src)
        for p, _ in list(pats):
            if p.count("{{") == 1 and "{{x}}" in p:
                for tn in TYPED:
                    pats.append((p, {"x": tn}))
        for psrc, typed in pats:
            for ssrc in ts:
                if isinstance(subject_node(ssrc), ast.stmt) != isinstance(subject_node(src), ast.stmt):
                    continue
                v, want = check_pair(psrc, ssrc, typed)
                res["n"] += 1
                if want:
                    res["nontrivial"].append(key_of([psrc, ssrc, typed]))
                    if not res["samples"] and psrc != ssrc and "{{" in psrc:
                        res["samples"].append({"pattern": psrc, "subject": ssrc, "typed": typed})
                res["viol"].extend(v)
    return res


# a named wildcard used twice against subjects whose two occurrences differ as trees but coincide in some TEXT (a string
# literal spelling the other operand, int vs float vs str spellings, quote styles): consistency is equality of trees.
# Family added after the seeded change C14-constant-consistency-by-value.
TWICE_PATTERNS = ["{{x}} == {{x}}", "f({{x}}, {{x}})", "d[{{k}}] = {{k}}", "{{x}} + {{x}}", "[{{x}}, {{x}}]", "{{x}} if {{x}} else 0",
                  "{{x}} = {{x}}", "{{x}}({{x}})", "f({{x}}, k={{x}})"]
TWICE_OPERANDS = ["a", "'a'", '"a"', "1", "'1'", "1.0", "'1.0'", "True", "'True'", "None", "'None'", "a.b", "'a.b'", "[a]", "'[a]'", "b'a'",
                  "f'a'", "-1", "'-1'", "(a)", "a  ", "0x1", "1e0", "1_0", "10"]


def run_twice():
    res = _new()
    for psrc in TWICE_PATTERNS:
        for l, r in itertools.product(TWICE_OPERANDS, repeat=2):
            ssrc = psrc.replace("{{x}}", "\0", 1).replace("{{x}}", r).replace("\0", l).replace("{{k}}", "\0", 1).replace("{{k}}", r).replace("\0", l)
            try:
                subject_node(ssrc)
            except SyntaxError:
                continue
            v, want = check_pair(psrc, ssrc)
            res["n"] += 1
            if want:
                res["nontrivial"].append(key_of([psrc, ssrc]))
            res["viol"].extend(v)
    return res


def run_direct():
    """Type / tuple / set templates given directly to match_template."""
    from pyrefact import core

    res = _new()
    W = core.Wildcard
    templates = {
        "Name": (ast.Name, lambda n: isinstance(n, ast.Name)),
        "Constant": (ast.Constant, lambda n: isinstance(n, ast.Constant)),
        "expr": (ast.expr, lambda n: isinstance(n, ast.expr)),
        "(Name,Call)": ((ast.Name, ast.Call), lambda n: isinstance(n, (ast.Name, ast.Call))),
        "Call(func=Name(id=(f,g)))": (ast.Call(func=ast.Name(id=("f", "g"))),
                                        lambda n: isinstance(n, ast.Call) and isinstance(n.func, ast.Name) and n.func.id in ("f", "g")),
        "Call(args={Name})": (ast.Call(args={ast.Name}),
                              lambda n: isinstance(n, ast.Call) and all(isinstance(a, ast.Name) for a in n.args)),
        "Call(args={Name,Constant})": (ast.Call(args={ast.Name, ast.Constant}),
                                       lambda n: isinstance(n, ast.Call) and all(isinstance(a, (ast.Name, ast.Constant)) for a in n.args)),
        "Call(args=[object,object])": (ast.Call(args=[object, object]), lambda n: isinstance(n, ast.Call) and len(n.args) == 2),
        "Constant(value=int)": (ast.Constant(value=int), lambda n: isinstance(n, ast.Constant) and isinstance(n.value, int)),
        "Constant(value=(str,1))": (ast.Constant(value=(str, 1)), lambda n: isinstance(n, ast.Constant) and (isinstance(n.value, str) or (n.value == 1 and n.value is not True))),
        "BinOp(left=W(l),right=W(l))": (ast.BinOp(left=W("l"), right=W("l")),
                                        lambda n: isinstance(n, ast.BinOp) and refmatch.dump(n.left) == refmatch.dump(n.right)),
        "Tuple-first-alt": ((ast.Call(func=W("fn", ast.Name)), ast.Call), lambda n: isinstance(n, ast.Call)),
    }
    for label, (tmpl, pred) in templates.items():
        for ssrc in trees():
            node = subject_node(ssrc)
            res["n"] += 1
            desc = {"direct_template": label, "subject": ssrc}
            try:
                got = bool(core.match_template(node, tmpl))
            except Exception as e:  # noqa: BLE001
                res["viol"].append(violation("match_template", "raised:" + type(e).__name__, "%s vs %r" % (label, ssrc), desc))
                continue
            want = bool(pred(node))
            if want:
                res["nontrivial"].append(key_of(desc))
            if got != want:
                res["viol"].append(violation("match_template", "false_positive" if got else "false_negative",
                                             "direct template %s vs %r: implementation %s" % (label, ssrc, got), desc))
            if isinstance(tmpl, tuple) and want:
                # OR templates: the first alternative that matches decides the bindings
                first = next(core.match_template(node, alt) for alt in tmpl if core.match_template(node, alt))
                full = core.match_template(node, tmpl)
                if getattr(first, "_fields", ()) != getattr(full, "_fields", ()):
                    res["viol"].append(violation("match_template", "or_template_not_first_alternative",
                                                 "direct template %s vs %r: bindings %s, first matching alternative gives %s" % (
                                                     label, ssrc, getattr(full, "_fields", ()), getattr(first, "_fields", ())), desc))
    return res


def run_self(name):
    """Every statement of a construct matches its own source text (and is found by findall in its module)."""
    from pyrefact import core

    res = _new()
    src = corpus.CONSTRUCTS[name]
    try:
        tree = ast.parse(src)
    except SyntaxError:
        return res
    for stmt in tree.body:
        seg = ast.get_source_segment(src, stmt)
        if not seg or "{{" in seg or "}}" in seg:
            continue
        res["n"] += 1
        desc = {"construct": name, "stmt": seg}
        try:
            tmpl = core.compile_template(seg)
            node = ast.parse(seg).body[0]
            if isinstance(node, ast.Expr) and not isinstance(tmpl, ast.stmt):
                node = node.value
            ok = bool(core.match_template(node, tmpl)) if not isinstance(tmpl, list) else True
        except Exception as e:  # noqa: BLE001
            res["viol"].append(violation("compile_template", "self_match_raised:" + type(e).__name__, "%s: %r" % (name, seg[:60]), desc))
            continue
        res["nontrivial"].append(key_of(desc))
        if not ok:
            res["viol"].append(violation("match_template", "does_not_match_itself", "%s: %r" % (name, seg[:60]), desc))
    return res


def _offsets(src):
    starts, pos = [], 0
    for line in src.split("\n"):
        starts.append(pos)
        pos += len(line) + 1
    return starts


def check_search(psrc, src):
    from pyrefact import pattern_matching

    desc = {"pattern": psrc, "source": src}
    tree = ast.parse(src)
    starts = _offsets(src)
    off = lambda ln, col: starts[ln - 1] + col
    if isinstance(psrc, list):  # alternatives: union of the occurrences of each, a node counted once
        want = sorted({(off(a.lineno, a.col_offset), off(b.end_lineno, b.end_col_offset)) for alt in psrc for a, b in refmatch.occurrences(_ref(alt), tree)})
        psrc = tuple(psrc)
    else:
        want = sorted((off(a.lineno, a.col_offset), off(b.end_lineno, b.end_col_offset)) for a, b in refmatch.occurrences(_ref(psrc), tree))
    try:
        ms = list(pattern_matching.finditer(psrc, src))
        got = sorted((m.start, m.end) for m in ms)
        texts = pattern_matching.findall(psrc, src)
    except Exception as e:  # noqa: BLE001
        return [violation("finditer", "raised:" + type(e).__name__, "%r in %r" % (psrc, src), desc)], bool(want)
    if got != want:
        missing = [w for w in want if w not in got]
        extra = [g for g in got if g not in want]
        kind = "occurrence_missed" if missing else ("spurious_occurrence" if set(extra) - set(want) else "occurrence_reported_twice")
        return [violation("finditer", kind, "pattern %r in %r: got %s want %s" % (psrc, src, got, want), desc)], bool(want)
    if sorted(texts) != sorted(src[a:b] for a, b in want):
        return [violation("findall", "texts_differ", "pattern %r in %r" % (psrc, src), desc)], bool(want)
    return [], bool(want)


def run_search(unit):
    res = _new()
    k = unit["k"]
    alphabet = STMTS3 if k <= 3 else STMTS3[:3]
    for rest in itertools.product(alphabet, repeat=k - 1):
        stmts = [unit["first"]] + list(rest)
        src = place(unit["kind"], stmts)
        for psrc in SEARCH_PATTERNS + (ALT_PATTERNS if k <= 2 else ALT_PATTERNS[::7]):
            v, want = check_search(psrc, src)
            res["n"] += 1
            if want:
                res["nontrivial"].append(key_of([psrc, src]))
                if not res["samples"] and "\n" in psrc:
                    res["samples"].append({"pattern": psrc, "source": src})
            res["viol"].extend(v)
    return res


def run_unit(unit):
    tier = os.environ.get("MC_TIER", "quick")
    t = unit["t"]
    if t == "list":
        return run_list(unit, tier)
    if t == "tree":
        return run_tree(unit)
    if t == "direct":
        return run_direct()
    if t == "twice":
        return run_twice()
    if t == "self":
        return run_self(unit["construct"])
    return run_search(unit)


def replay(desc):
    if "direct_template" in desc:
        return [v for v in run_direct()["viol"] if v["desc"] == desc]
    if "construct" in desc:
        return [v for v in run_self(desc["construct"])["viol"] if v["desc"] == desc]
    if "source" in desc:
        return check_search(desc["pattern"], desc["source"])[0]
    return check_pair(desc["pattern"], desc["subject"], dict(desc.get("typed") or []))[0]
