"""Reference matcher written from the documented semantics of the pattern language (not from the code).

pattern text -> python AST in which wildcards are identifiers:
    {{x}} -> W_x   {{x?}} -> Wq_x   {{x*}} -> Ws_x   {{x+}} -> Wp_x
    {{...}} -> A_<k>   {{...?}} -> Aq_<k>   {{...*}} -> As_<k>   {{...+}} -> Ap_<k>   (k unique per occurrence)
match(p, n) yields environments {name: dump}; a list is matched as a regular expression over its elements;
every element absorbed by a *named* quantified wildcard must be the same tree; ctx and positions are ignored.
"""
from __future__ import annotations

import ast
import re
import textwrap

_WRE = re.compile(r"\{\{(\w+|\.\.\.)([?*+]?)\}\}")
_QPREFIX = {"": "", "?": "q", "*": "s", "+": "p"}
IGNORED_FIELDS = {"ctx", "type_comment", "kind", "type_ignores", "type_params"}


class PatternError(ValueError):
    pass


def preprocess(pattern):
    counter = [0]
    kinds = {}

    def repl(m):
        name, q = m.groups()
        if name == "...":
            counter[0] += 1
            return "A%s_%d" % (_QPREFIX[q], counter[0])
        kinds.setdefault(name, set()).add(q)
        return "W%s_%s" % (_QPREFIX[q], name)

    out = _WRE.sub(repl, pattern)
    for name, qs in kinds.items():
        if len(qs) > 1:
            raise PatternError("wildcard %s used with two quantifier kinds" % name)
    return out


def parse_pattern(pattern):
    """-> template: expression node | statement node | list of statements"""
    src = textwrap.dedent(preprocess(pattern))
    body = ast.parse(src).body
    if not body:
        raise PatternError("empty")
    if len(body) > 1:
        return body
    stmt = body[0]
    if isinstance(stmt, ast.Expr):
        return stmt.value
    return stmt


def _wild(p):
    """-> (named?, name, quant) if p is a wildcard occurrence else None. quant in '', 'q', 's', 'p'"""
    ident = None
    if isinstance(p, ast.Name):
        ident = p.id
    elif isinstance(p, ast.Expr) and isinstance(p.value, ast.Name):
        ident = p.value.id
    elif isinstance(p, ast.alias) and p.asname is None:
        ident = p.name
    elif isinstance(p, ast.arg) and p.annotation is None:
        ident = p.arg
    elif isinstance(p, str):
        ident = p
    if not ident:
        return None
    m = re.fullmatch(r"(W|A)([qsp]?)_(\w+)", ident)
    if not m:
        return None
    return (m.group(1) == "W", m.group(3), m.group(2))


def dump(n):
    if isinstance(n, ast.AST):
        return ast.dump(_strip_ctx(n))
    return repr(n)


def _strip_ctx(n):
    import copy

    n = copy.deepcopy(n)
    for c in ast.walk(n):
        if hasattr(c, "ctx"):
            c.ctx = ast.Load()
    return n


def _bind(env, name, value):
    d = dump(value)
    if name in env:
        return env if env[name] == d else None
    e = dict(env)
    e[name] = d
    e["node:" + name] = value
    return e


def match(p, n, env=None):
    """Generator of environments under which node n is pattern p."""
    env = {} if env is None else env
    if isinstance(p, list):
        if not isinstance(n, list):
            return
        yield from _match_list(p, 0, n, 0, env)
        return
    w = _wild(p)
    if w is not None and not isinstance(p, str):
        named, name, q = w
        if q:  # a quantified wildcard outside a list matches nothing
            return
        if isinstance(p, ast.alias):
            if not isinstance(n, ast.alias):
                return
        if named:
            val = n.name if isinstance(p, ast.alias) and isinstance(n, ast.alias) else n
            e = _bind(env, name, val)
            if e is not None:
                yield e
        else:
            yield env
        return
    if isinstance(p, str) and w is not None and w[2] == "":
        # identifier-valued field (function name, attribute name, alias name...)
        if not isinstance(n, str):
            return
        if w[0]:
            e = _bind(env, w[1], n)
            if e is not None:
                yield e
        else:
            yield env
        return
    if isinstance(p, ast.AST):
        if type(p) is not type(n):
            return
        fields = [f for f in p._fields if f not in IGNORED_FIELDS]
        yield from _match_fields(p, n, fields, 0, env)
        return
    if type(p) is type(n) and p == n:
        yield env


def _match_fields(p, n, fields, i, env):
    if i == len(fields):
        yield env
        return
    f = fields[i]
    for e in match(getattr(p, f, None), getattr(n, f, None), env):
        yield from _match_fields(p, n, fields, i + 1, e)


def _match_list(ps, i, ns, j, env):
    if i == len(ps):
        if j == len(ns):
            yield env
        return
    p = ps[i]
    w = _wild(p)
    if w is None or w[2] == "":
        if j < len(ns):
            for e in match(p, ns[j], env):
                yield from _match_list(ps, i + 1, ns, j + 1, e)
        return
    named, name, q = w
    lo, hi = {"q": (0, 1), "s": (0, len(ns)), "p": (1, len(ns))}[q]
    for k in range(lo, min(hi, len(ns) - j) + 1):
        seg = ns[j : j + k]
        e = env
        if named:
            for el in seg:
                val = el.name if isinstance(el, ast.alias) else el
                e = _bind(e, name, val)
                if e is None:
                    break
            if e is None:
                continue
        yield from _match_list(ps, i + 1, ns, j + k, e)


def matches(p, n):
    for _ in match(p, n):
        return True
    return False


BODY_FIELDS_CLAIMED = {
    ast.Module: ("body",), ast.FunctionDef: ("body",), ast.AsyncFunctionDef: ("body",), ast.ClassDef: ("body",),
    ast.If: ("body", "orelse"), ast.For: ("body", "orelse"), ast.While: ("body", "orelse"), ast.With: ("body",),
    ast.AsyncFor: ("body", "orelse"), ast.AsyncWith: ("body",),
}


def occurrences(template, tree, with_env=False):
    """Reference occurrence finder -> list of (first node, last node[, env]) per occurrence."""
    out = []

    def first_env(p, n):
        for e in match(p, n):
            return e
        return None

    if isinstance(template, list):
        k = len(template)
        for node in ast.walk(tree):
            for f in BODY_FIELDS_CLAIMED.get(type(node), ()):
                body = getattr(node, f)
                for i in range(0, len(body) - k + 1):
                    e = first_env(template, body[i : i + k])
                    if e is not None:
                        out.append((body[i], body[i + k - 1], e) if with_env else (body[i], body[i + k - 1]))
        return out
    for node in ast.walk(tree):
        if isinstance(node, (ast.expr, ast.stmt)):
            e = first_env(template, node)
            if e is not None:
                out.append((node, node, e) if with_env else (node, node))
    return out
