"""Interception seams: everything the harness must own before pyrefact is imported.

* functools.lru_cache -> introspectable drop-in for modules named pyrefact.* (same LRU policy)
* ast.AST.__hash__    -> position based (iteration order of node sets becomes a function of the input)
* cwd                 -> private empty scratch directory
* logging             -> silenced (level 100); logs._get_logger is never cleared
"""
from __future__ import annotations

import ast
import atexit
import functools
import os
import shutil
import sys
import tempfile
import warnings

REG = []  # (module, name, wrapper)
ON_INSERT = None  # optional callback(wrapper, key, value) at every cache insertion (used by C05)
_orig_lru_cache = functools.lru_cache
_INSTALLED = False
SCRATCH = None


def _lru_cache(maxsize=128, typed=False):
    caller = sys._getframe(1).f_globals.get("__name__", "")
    if not caller.startswith("pyrefact"):
        return _orig_lru_cache(maxsize, typed)
    if callable(maxsize) and not isinstance(maxsize, int):
        f = maxsize
        return _make(f, 128)
    return lambda f: _make(f, maxsize)


def _make(f, maxsize):
    def wrapper(*a, **k):
        cache = wrapper.cache  # looked up per call: C06's virtual pool swaps per-worker cache sets in and out
        key = (a, tuple(sorted(k.items()))) if k else (a, ())
        if key in cache:
            v = cache.pop(key)
            cache[key] = v
            return v
        v = f(*a, **k)
        cache = wrapper.cache
        cache[key] = v
        if ON_INSERT is not None:
            ON_INSERT(wrapper, key, v)
        if maxsize is not None and len(cache) > maxsize:
            cache.pop(next(iter(cache)))
        return v

    wrapper.cache = {}
    wrapper.cache_clear = lambda: wrapper.cache.clear()
    wrapper.maxsize = maxsize
    functools.update_wrapper(wrapper, f)
    wrapper.__wrapped__ = f
    REG.append((f.__module__, f.__name__, wrapper))
    return wrapper


def _pos_hash(node):
    return hash((
        type(node).__name__,
        getattr(node, "lineno", -1),
        getattr(node, "col_offset", -1),
        getattr(node, "end_lineno", -1),
        getattr(node, "end_col_offset", -1),
    ))


def _pos_hash_desc(node):
    return -_pos_hash(node) - 1


def _pos_hash_scramble(node):
    return (_pos_hash(node) * 0x9E3779B97F4A7C15 + 12345) % (2**61 - 1)


NODEHASH = {
    "pos": _pos_hash,
    "desc": _pos_hash_desc,
    "scramble": _pos_hash_scramble,
}


def install(nodehash=None, scratch=True):
    """Install all seams and import pyrefact. Idempotent."""
    global _INSTALLED, SCRATCH
    if _INSTALLED:
        return
    _INSTALLED = True
    warnings.simplefilter("ignore")
    sys.setrecursionlimit(3000)
    functools.lru_cache = _lru_cache
    nodehash = nodehash or os.environ.get("MC_NODEHASH", "pos")
    if nodehash != "default":
        ast.AST.__hash__ = NODEHASH[nodehash]
    repo = os.environ.get("MC_REPO", "/repo")  # MC_REPO: maintenance only (mutants / seeded changes in a scratch worktree)
    if repo in sys.path:
        sys.path.remove(repo)
    sys.path.insert(0, repo)
    if scratch:
        new_scratch()
    import pyrefact.main  # noqa: F401
    from pyrefact import logs

    logs.set_level(100)
    try:
        import compactify.logs

        compactify.logs.set_level(100)
    except Exception:  # noqa: BLE001
        pass
    functools.lru_cache = _orig_lru_cache
    _snapshot_module_state()


BASE = None


def new_scratch():
    """chdir into a fresh private scratch directory below the run's base directory.

    The base directory is created by the first caller (the parent process) and removed by it at
    exit; forked workers only add sub-directories."""
    global SCRATCH, BASE
    if BASE is None:
        BASE = tempfile.mkdtemp(prefix="mc_", dir=os.environ.get("MC_TMP", "/tmp"))
        pid = os.getpid()

        def _rm(d=BASE, pid=pid):
            if os.getpid() == pid:
                os.chdir("/")
                shutil.rmtree(d, ignore_errors=True)

        atexit.register(_rm)
    d = tempfile.mkdtemp(prefix="w_", dir=BASE)
    os.chdir(d)
    SCRATCH = d
    return d


_MODULE_STATE = []  # (container object, deep copy taken right after import)
_MUTABLE = (dict, list, set, bytearray)


def _snapshot_module_state():
    """Remember every module-level / default-argument / class-level mutable container of pyrefact, so that
    clear_caches() can put the process back into its just-imported state (closer to a fresh process than
    clearing the lru caches alone: a scratch buffer hoisted to module scope is state too)."""
    import collections
    import copy
    import types

    seen = set()

    def add(obj):
        if isinstance(obj, _MUTABLE + (collections.deque,)) and id(obj) not in seen:
            seen.add(id(obj))
            try:
                _MODULE_STATE.append((obj, copy.deepcopy(obj)))
            except Exception:  # noqa: BLE001
                pass

    seen_functions = set()

    def add_function(fn):
        """defaults, function attributes and - through the closure cells - the state a decorator keeps per wrapped
        function (a history set hoisted from the wrapper into the decorator survives every call, too)"""
        if id(fn) in seen_functions:
            return
        seen_functions.add(id(fn))
        for d in (fn.__defaults__ or ()):
            add(d)
        for d in (fn.__kwdefaults__ or {}).values():
            add(d)
        for d in list(vars(fn).values()):
            add(d)
            if isinstance(d, types.FunctionType):
                add_function(d)
        for cell in fn.__closure__ or ():
            try:
                content = cell.cell_contents
            except ValueError:
                continue
            add(content)
            if isinstance(content, types.FunctionType):
                add_function(content)

    for modname, mod in list(sys.modules.items()):
        if not (modname == "pyrefact" or modname.startswith("pyrefact.")) or mod is None:
            continue
        for name, val in list(vars(mod).items()):
            add(val)
            if isinstance(val, types.FunctionType) and val.__module__ == modname:
                add_function(val)
            elif isinstance(val, type) and val.__module__ == modname:
                for cval in list(vars(val).values()):
                    add(cval)


def reset_module_state():
    for obj, snap in _MODULE_STATE:
        try:
            if obj != snap:
                import copy

                fresh = copy.deepcopy(snap)
                if isinstance(obj, dict):
                    obj.clear()
                    obj.update(fresh)
                elif isinstance(obj, set):
                    obj.clear()
                    obj.update(fresh)
                elif isinstance(obj, (list, bytearray)):
                    obj[:] = fresh
                else:
                    obj.clear()
                    obj.extend(fresh)
        except Exception:  # noqa: BLE001
            pass


def clear_caches():
    reset_module_state()
    for mod, name, w in REG:
        if mod == "pyrefact.logs":
            continue
        if name == "parse_line_length_from_pyproject_toml":
            continue
        w.cache_clear()


def cache(modname, name):
    for mod, n, w in REG:
        if mod == modname and n == name:
            return w
    raise KeyError((modname, name))


def main_module():
    return sys.modules["pyrefact.main"]
