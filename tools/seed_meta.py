#!/usr/bin/env python3
"""Write seeded/<name>/meta.json from the hand-maintained table below + result.txt (output of tools/seeds_run.sh)."""
import json, os, re
HERE = os.path.dirname(os.path.dirname(os.path.abspath(__file__)))
NEEDS = {
 "C01-rename-shadow-kwonly-param": "a module-level variable that the naming rule renames AND a function with a keyword-only / positional-only / *args / **kwargs parameter of the same name that reads it (the parameter's uses are renamed to the outer variable)",
 "C02-early-continue-drops-else": "last statement of a for body is an if with a body of >= 5 statements spanning >= 6 lines AND an else of only 1-2 statements: early_continue rewrites it and silently drops the else",
 "C03-import-spacing-no-rollback": "an import inside an indented block directly followed (no blank line) by a multi-line statement that has a less-indented continuation line (multi-line string at column 0) and another statement after it: fix_import_spacing/sort_imports return invalid text",
 "C04-asyncfor-in-move-before-loop": "any input containing an 'async for' statement: move_before_loop reaches scope.test on an AsyncFor -> AttributeError out of format_code",
 "C05-symmath-mutable-default-table": "an EARLIER call in the same process must have seen a boolean expression mentioning >= 2 of the later input's non-name operands in another order; the later input must contain a boolean expression sympy really simplifies (mutable default argument keeps the operand->symbol table)",
 "C06-overused-constant-set-order": "one text with >= 2 different overused literals (>= 5 occurrences, >= 20 characters, not identifier-like strings) that both get a numbered name pyrefact_overused_constant_N: numbering follows string-hash order",
 "C07-safe-bare-method-names": "a module-level class without bases with a non-magic method whose name is not snake_case, formatted with safe=True (method renamed, self.<old> uses left behind)",
 "C08-preserve-skips-self-attrs": "the preserved client SUBCLASSES a library class and reaches an inherited, otherwise unused member only through self.<name> / cls.<name>; safe=False",
 "C09-swap-preference-line-span": "an if/else (or if-return + return) whose both sides start with return/continue/break and each still spans >= 5 lines after the line-wrapping stage re-wraps it (> 100 characters when joined): swapped back and forth between applications",
 "C10-sched-overlap-check-hoisted": "a lower-precedence transaction with >= 2 rewrites of which a NON-first-in-text one overlaps an already scheduled transaction while its first-in-text rewrite overlaps nothing",
 "C11-blank-line-regex-eats-indent": ">= 3 blank lines directly before an INDENTED line (class attribute then method, last statement of a loop body): the line is re-emitted at column 0",
 "C12-walk-sequence-orelse-shadowed": "a statement-SEQUENCE pattern whose occurrence lies in an else / for-else / while-else body while the main body has at least as many statements as the pattern (missed), or a body whose last statement is an if/for/while with else (reported twice)",
 "C13-end-column-byte-width": "a multi-byte character INSIDE a single-line matched node (span end overshoots by bytes - characters)",
 "C14-ignore-comment-last-line": "the ignore comment sits on the LAST line of the source (with or without trailing newline) and a match touches that line",
 "C15-in-operator-swapped": "a constant 'in' test between two strings/bytes or between a container and a container of containers ('' in 'a', (1, 2) in [(1, 2)]); scalar-in-list raises and stays 'unknown'",
 "C16-continue-not-a-way-past-loop": "a for loop over a non-empty LITERAL iterable whose body is 'if <non-constant>: continue' followed at body level by return/raise: treated as blocking, live code after the loop deleted",
 "C17-neq-lte-equal-constants": "'x != c and x <= c' with EQUAL constants (also mirrored '3 != x and 3 >= x' and inside longer and-chains); differs only at x == c",
 "C18-reimported-module-alias-lost": "helper module has 'import m1 as h' (plain import with alias) and the client writes 'from helper import h' without its own alias: redirected to 'import m1', h unbound",
 "C19-shadow-check-ordinary-params-only": "a variable the naming rule renames AND a function in that scope with a keyword-only / positional-only / *args / **kwargs parameter of the same name (same change as C01-rename-shadow-kwonly-param, written independently)",
 "C01-inline-math-comprehension-mutated-dependency": "a comprehension / list()/sorted() assigned to a name that is used once as argument of sum()/len(), with a dependency mutated IN PLACE (clear, append, item assignment, del, call) between assignment and use: the snapshot is evaluated after the mutation",
 "C02-merge-chained-comps-if-order": "nested same-kind comprehension whose inner one is a pure filter, both levels have an if, and the OUTER condition raises or prints on elements the inner filter rejects (20 // x guarded by x != 0)",
 "C03-replace-nodes-validates-input": "a nested f-string whose inner part is not spelled as ast.unparse spells it, inside a statement that an alter_code-based rule (early_continue, swap_if_else, missing_context_manager, ...) re-emits: the rule returns unparseable text, format_code raises SyntaxError",
 "C04-blank-line-regex-order-backtracking": "a run of >= ~24 blank / whitespace-only lines anywhere but at the end of the input: exponential regex backtracking inside fix_too_many_blank_lines, format_code does not return",
 "C05-starred-import-identity-vs-evicted-parse": "a module with 'from m import *' and a used name, formatted a SECOND time in the same process after >= 100 other texts were parsed (core.parse LRU evicted, trace_origin cache still holds nodes of the old tree): the starred import is deleted",
 "C07-starred-target-not-an-assignment": "safe=True, a top-level assignment with a starred element in its target whose name is never read in the module: renamed to *_",
 "C09-line-length-nested-pass-rejoins": "a statement at indentation > max_line_length - 60 (44 columns at the default) whose one-line width lies in (max_line_length - indent, 60]: split by one pass of the wrapping stage and re-joined by another, alternating forever",
 "C10-zero-width-range-overlap": "an insertion (zero-width range) strictly inside the span of another rewrite of the same pass: no longer seen as overlapping, both applied (stale offsets) or the whole pass rolled back",
 "C11-restore-strings-into-fstring-segments": "an f-string segment or format spec whose bare text parses as an expression ('ms', 'd') + a plain SINGLE-quoted literal with the same value elsewhere in the file: the segment is overwritten with the quoted literal",
 "C12-scalar-leaf-isinstance": "an int constant 0/1 in a pattern against the bool False/True at that position in the code (isinstance instead of exact type)",
 "C14-multiline-literal-last-line-indent": "a wildcard bound to a triple-quoted literal spanning >= 2 lines at column > 0 and used by the replacement: the literal's last line gets extra spaces inside the string",
 "C15-method-call-keywords-dropped": "a method call on a literal with keyword arguments whose omission changes the result without raising ('a b c'.split(maxsplit=1)) in a position where constants are folded",
 "C16-safe-callable-shadowed-name": "a side-effect-free user function whose name is ALSO bound other than by a direct module-level assignment (loop variable, local, with/walrus target, nested assignment) and a bare call through that name: the call is deleted",
 "C17-unaryop-as-not": "an arithmetic unary operator directly on an and/or/not operand that occurs again in the expression: 'x or -x' -> True",
 "C18-star-all-not-forwarded": ">= 2 star imports where a later module (directly or through a star re-export chain) has a list __all__ that omits a name it still binds privately, an earlier star import really provides that name, and the program uses it",
 "C19-overused-constant-name-collision": "the module already binds PYREFACT_OVERUSED_CONSTANT_0 (output of an earlier run) and gains a new overused literal at module level that gets a numbered name: second constant gets the same name. NOTE: harmless since fix 47f9edd (names are checked after the convention is applied); evaluated against the parent commit 47f9edd~1",
 "C20-skip-file-after-whitespace-normalisation": "a file with '# pyrefact: skip_file' that contains a tab, trailing blanks, >= 3 blank lines or blank lines at EOF: returned whitespace-normalised instead of byte-for-byte",
 "C20-ignore-on-closing-line": "the ignore comment is on the CLOSING line of a multi-line range a rule rewrites or removes (']) # pyrefact: ignore', last line of an if/else replaced by remove_dead_ifs)",

 # wave 3
 "C01-breaks-out-of-skips-handlers": "a 'while True:' / 'while 1:' loop whose every break sits in an except handler or a match case (one ordinary break elsewhere hides it) + something observable after the loop: the loop is taken for endless and the code after it is deleted",
 "C02-inline-math-reads-only-store": "module level; w = [<comprehension over a>] used exactly once as the only argument of sum()/len(), and between the two an in-place mutation of a (a.append, a[0] = .., del a[0]) that does not rebind the name",
 "C03-import-inserted-at-header-start": "a module that needs a guessed import (os, np, functools ...) whose last header statement (docstring as adjacent literals in parentheses, parenthesised 'from __future__ import (...)') spans several lines: the import is inserted inside the parentheses",
 "C04-evaluation-errors-narrowed-lookup": "a side-effect-free constant expression raising IndexError / KeyError / LookupError / StopIteration / RuntimeError ('{} {}'.format('a'), '%(a)s' % {}, 'a'.encode('nope'), next(iter(()))) in a position whose constant value a rule asks for (if / while / ternary test, and/or operand, for iterable): format_code raises",
 "C05-fix-history-hoisted": "a processing.fix rule that needs more than one internal iteration on X (X -> X1 -> X2) AND an earlier call in the same process that gave the same rule exactly X1 (e.g. an older version of the file); visible through format_code only for rules that run outside the fixpoint loops",
 "C06-original-spelling-counter-over-set": "one string value spelled in >= 2 non-canonical ways in the file (u'utf-8' and \"\"\"utf-8\"\"\") inside code that a rewrite regenerates, compared across processes with different PYTHONHASHSEED",
 "C07-unreachable-walk-yields-module": "safe=True and a module-level statement that cannot be passed (raise, assert False, while True without break, if/else that both raise) followed by top-level definitions: they are deleted as unreachable",
 "C08-preserve-union-minus-own-names": "format_files / CLI with the refactored file itself among the preserved files ('pyrefact pkg/lib.py --preserve pkg'), a name the client uses that the library also mentions as an attribute or imported name, and a rule that touches the name once it is unpreserved",
 "C09-first-loop-module-pass-budget": "an input whose clean-up needs more than 25 passes at one layer per pass (a chain of >= 26 dead assignments a0 = ..; a1 = a0 * 2; ...): still changing after 5 applications",
 "C10-ignore-check-on-transaction-span": "a transaction of >= 2 rewrites with an explicit number and an ignore-commented line strictly BETWEEN two of them that no rewrite touches: the whole transaction is dropped",
 "C11-elif-prefix-word-boundary": "a module-level statement whose text starts with an identifier beginning with 'elif' (elif_histogram = ..., elifs = [...]) through the line-wrapping stage: written back as if_histogram",
 "C12-walk-wildcard-tuple-tried-not-yielded": "a tuple of alternative patterns with the same root node type passed to finditer/findall/sub, and a node that fails an earlier alternative but matches a later one: occurrence missed",
 "C13-match-via-search": "match() on a source where the occurrence at the very start is not the first one in the breadth-first walk (foo.bar(foo), x.y = 1\\nx): returns None",
 "C14-range-overlaps-touching": "a line carrying an ignore comment and a match on the line directly below it that starts at column 0: silently not rewritten (touching ranges count as overlapping)",
 "C15-evaluation-errors-narrowed": "next() without default on a one-shot iterator over an empty literal (next(iter([])), next(zip())) or a bare super() in a folded position: StopIteration / RuntimeError escapes literal_value and crashes format_code",
 "C16-for-over-empty-lazy-iterator": "a for loop over a constant-foldable EMPTY LAZY iterator (enumerate(()), zip((1,2),()), reversed(()), iter(()), filter(None,(0,))) with a return / raise in the body: treated as impassable, the code after it is deleted",
 "C17-negate-chained-comparison": "a chained comparison (0 < x < 5) as the test (or and/or operand) of an if that swap_if_else or early_continue negates: the second link is dropped (0 >= x)",
 "C18-dotted-import-root-name-guard": "a non-module-level un-aliased dotted import (import os.path) of a movable module whose ROOT name is bound otherwise in the module (parameter os=None, global os = ..., def os): hoisted to module level, the name resolves to the other object",
 "C19-declared-names-defs-renamed": "a name bound by def / async def / class that breaks its convention AND appears in a global / nonlocal statement: the definition is renamed, the declaration and the uses are not",
 "C20-ignore-bisect-closing-line": "a multi-line range whose last character is the first character of its last line (closing bracket alone in column 0) with the ignore comment on that closing line: the line is rewritten or deleted",
 # wave 4 (8 changes, end of session 3)
 "C01-move-before-loop-ignores-iterable": "a for loop whose body rebinds, by plain assignment of a loop-invariant value, a name the loop's ITERABLE reads (for job in pending: ...; pending = []): the assignment is hoisted in front of the loop",
 "C02-iter-of-set-comprehension": "iter() directly around a SET comprehension whose elements contain duplicates, with output depending on the number of iterated items: rewritten to a plain generator",
 "C03-remove-nodes-pass-only-for-statements": "every statement of an 'except ...:' handler or 'case ...:' block removed through remove_nodes / alter_code (e.g. a duplicate 'import x' that is the block's only statement, the name also bound as a parameter so that the import is not hoisted first): the block is left empty, invalid text / IndentationError",
 "C04-charno-decode-strict": "non-ASCII source + a rule inserting code at an indented column of an existing line (common tail of an if/else that ends a function, no blank line below) where the next line has a multi-byte character straddling that byte offset: UnicodeDecodeError out of format_code",
 "C06-bool-bounds-sorted-by-line-only": "one and/or chain containing the same numeric comparison twice on the same source line with another operand between them: which duplicate is dropped depends on object addresses (differs between processes)",
 "C10-sort-by-range-start-only": "an insertion (empty range) and a replacement of a non-empty range starting at the same offset, scheduled together, with the inserted text sorting after the replacement text: applied in the wrong order at stale offsets",
 "C14-constant-consistency-by-value": "a pattern using one wildcard twice and a candidate where one occurrence is a string literal whose content spells the source text of the other (1 == '1', d['k'] = k): treated as a match and rewritten",
 "C19-static-extraction-name-collision-guard": ">= 2 base-less classes each with a @staticmethod of the same name and different bodies: both are extracted to module level as _<name>, the later definition captures the other's calls",
}
WAVE3 = {n for n in NEEDS if list(NEEDS).index(n) >= list(NEEDS).index("C01-breaks-out-of-skips-handlers")}
for name in sorted(os.listdir(os.path.join(HERE, "seeded"))):
    d = os.path.join(HERE, "seeded", name)
    if not os.path.isdir(d):
        continue
    res = open(os.path.join(d, "result.txt")).read() if os.path.exists(os.path.join(d, "result.txt")) else ""
    runs = []
    for line in res.splitlines():
        m = re.match(r"(C\d\d) rc=(\d) (.*)", line)
        if m:
            runs.append({"check": m.group(1), "tier": "quick", "exit_code": int(m.group(2)), "detected": m.group(2) == "1", "summary": m.group(3)[:200]})
    meta = {
        "property": name[:3],
        "written_by": "independent sub-agent (given only the property text and a scratch worktree)",
        "wave": 3 if os.path.exists(os.path.join(d, "result_first_run.txt")) and name in WAVE3 else None,
        "needs_to_manifest": NEEDS.get(name, "see NOTES.md"),
        "confirmed_by_me": "tools/verify_seed.sh: demo exits 0 on the clean worktree, 58 pinned tests pass with the change, demo exits 1 with the change",
        "checks_run_against_it": runs,
        "detected_by": sorted({r["check"] for r in runs if r["detected"]}),
    }
    json.dump(meta, open(os.path.join(d, "meta.json"), "w"), indent=1)
    print(name, meta["detected_by"])
