#!/bin/bash
ROOT=${MUT_ROOT:-/repo}; export MC_REPO=$ROOT; export MC_EVIDENCE_DIR=/tmp/mc_evidence_scratch; mkdir -p $MC_EVIDENCE_DIR
# tools/mutant.sh <patch> <ID> [<ID>...]   apply a patch to /repo, run pinned tests + checks, revert.
# env: SKIP_TESTS=1 to skip the pinned suite, TIER=quick|thorough
patch="$(readlink -f "$1")"; shift
cd $ROOT || exit 2
if ! git diff --quiet; then echo "/repo dirty"; exit 2; fi
git apply "$patch" || { echo "patch does not apply"; exit 2; }
trap 'cd $ROOT && git checkout -- . ' EXIT
if [ -z "$SKIP_TESTS" ]; then
  PYTHONPATH=$ROOT /venv/bin/python -m pytest -q -p no:cacheprovider -x 2>&1 | tail -1
fi
cd /verif
for id in "$@"; do
  out=$(./check "$id" --tier "${TIER:-quick}" 2>&1); rc=$?
  echo "== $id rc=$rc $(echo "$out" | grep -c '^VIOLATION') violation lines"
  echo "$out" | grep -E '^VIOLATION|HARNESS' | head -3
  echo "$out" | tail -1
done
