#!/bin/bash
ROOT=${MUT_ROOT:-/repo}; export MC_REPO=$ROOT; export MC_EVIDENCE_DIR=/tmp/mc_evidence_scratch; mkdir -p $MC_EVIDENCE_DIR
# tools/seeds_run.sh [name-prefix]: apply each seeded/<name>/patch.diff to /repo, run the check(s) for its property
# (name starts with the property id; extra checks in seeded/<name>/extra_checks), record the outcome in
# seeded/<name>/result.txt, revert. /repo must be clean and no other check may be running.
cd /verif
for d in seeded/${1}*/; do
  name=$(basename $d); id=$(echo $name | cut -c1-3)
  extra=$(cat $d/extra_checks 2>/dev/null)
  cd $ROOT; git diff --quiet || { echo "/repo dirty"; exit 2; }
  patch=/verif/$d/patch.diff; [ -f /verif/$d/patch_ported.diff ] && patch=/verif/$d/patch_ported.diff
  git apply $patch || { echo "$name: patch does not apply"; cd /verif; continue; }
  cd /verif; : > $d/result.txt
  for chk in $id $extra; do
    res=$(./check $chk --tier quick 2>&1); rc=$?
    echo "$chk rc=$rc $(echo "$res" | tail -1)" >> $d/result.txt
    echo "$res" | grep -m3 "^VIOLATION" | cut -c1-400 >> $d/result.txt
    echo "== $name $chk rc=$rc $(echo "$res" | grep -c '^VIOLATION') violation lines"
  done
  cd $ROOT; git checkout -- .; cd /verif
done
