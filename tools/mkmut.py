#!/usr/bin/env python3
"""tools/mkmut.py name file 'old' 'new'  -> /verif/mutants/name.patch (repo left clean)"""
import subprocess, sys
import os
ROOT = os.environ.get("MUT_ROOT", "/repo")  # use a scratch worktree while checks are running against /repo
name, path, old, new = sys.argv[1:5]
p = ROOT + "/" + path
s = open(p).read()
if s.count(old) != 1:
    sys.exit("pattern occurs %d times in %s" % (s.count(old), path))
open(p, "w").write(s.replace(old, new))
subprocess.run("git diff > /verif/mutants/%s.patch && git checkout -- ." % name, shell=True, cwd=ROOT, check=True)
print("ok", name)
