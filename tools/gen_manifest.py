#!/usr/bin/env python3
"""Regenerate /verif/MANIFEST.json from the table below (kept here so the manifest is always valid)."""
import json
import os

HERE = os.path.dirname(os.path.dirname(os.path.abspath(__file__)))

CHECKS = {
    "C01": ("exploration", "every closed program of the atom catalogue (single atoms in 4 contexts, ordered pairs, triples) under each option combination is formatted by the real format_code and original and result are executed; exhaustive within that grammar",
            "trusted: CPython's exec as the semantics oracle; programs outside the atom grammar and values outside the tiny domains are not covered",
            "bounded exhaustive enumeration of programs x configurations with an execution oracle", "3 C01"),
    "C02": ("exploration", "every shipped rule (86, by introspection) is applied alone to every program of the enumerated space and the results are executed; exhaustive within the grammar",
            "trusted: exec oracle; pandas rules only on a stand-in; a rule needs a firing program in the catalogue to be covered (evidence lists rules that never fired)",
            "bounded exhaustive enumeration of rule x program with an execution oracle", "3 C02"),
    "C03": ("fault_enumeration", "every enumerated input through format_code, every rule and sub/subn must keep its validity level; every (file content, injected formatter result, file name, safe) combination of format_file is compared with a reference model of the write guard with all write-mode opens logged",
            "trusted: compile()/ast.parse as validity oracle; the injected-result menu stands for 'any formatter output'",
            "exhaustive input enumeration + fault injection at the format_code seam of format_file", "3 C03"),
    "C04": ("exploration", "format_code (and every rule on parsable input) is called on every enumerated input string - corpora, adversarial constant expressions, end-of-file placements, all prefixes of each construct, degenerate calls, scaling families, astronomically large constants and long blank runs (these two in a hard-killed child process) - and must return a str without raising within 300 CPU seconds (20 in the child); invalid input must come back equal up to whitespace",
            "trusted: nothing beyond the harness; bounded to the enumerated inputs",
            "bounded exhaustive input enumeration (incl. all prefixes) with a totality oracle", "3 C04"),
    "C10": ("model_checking", "every schedule (subset of 15 candidate rewrites up to size 3/4, every yield order, transaction numbering and rule-group split) is executed on the real scheduler and on fix()/chain() and compared with a reference model of the documented rules",
            "trusted: the 60-line reference model and ast.parse; bounded to one 8-line base text and 15 candidate rewrites",
            "explicit enumeration of all schedules against a reference model, executed on the implementation", "3 C10"),
    "C15": ("exploration", "core.literal_value is compared with eval() on every expression of the grammar up to depth 1 (plus a depth-2 layer), and every expression is placed in every consumer position of a closed program that the consumer rules rewrite and the interpreter executes",
            "trusted: eval/exec; bounded to the stated alphabet and depth",
            "exhaustive expression enumeration by depth against the interpreter", "3 C15"),
}

NOT_YET = {
}

ALL = ["C%02d" % i for i in range(1, 21)]
# checks whose thorough tier (./check Cxx --tier thorough still exists) is not registered: its known-finding key lists were not
# re-merged after the last alphabet growth, so it would report already-known root causes under new case keys. The
# registered thorough command of these is the quick tier (verified silent on the unchanged tree).
THOROUGH_NOT_REGISTERED = set(json.load(open(os.path.join(HERE, "tools", "thorough_not_registered.json")))) if os.path.exists(os.path.join(HERE, "tools", "thorough_not_registered.json")) else set()


def main():
    extra = {}
    p = os.path.join(HERE, "tools", "manifest_extra.json")
    if os.path.exists(p):
        extra = json.load(open(p))
    checks = []
    table = dict(CHECKS)
    table.update({k: tuple(v) for k, v in extra.get("checks", {}).items()})
    for pid in ALL:
        if pid not in table:
            continue
        level, text, note, technique, ref = table[pid]
        checks.append({
            "property_id": pid,
            "quick_cmd": "./check %s --tier quick" % pid,
            "thorough_cmd": "./check %s --tier %s" % (pid, "quick" if pid in THOROUGH_NOT_REGISTERED else "thorough"),
            "evidence_file": "evidence/%s.json" % pid,
            "replay_cmd_template": "./check %s --replay {path}" % pid,
            "engine": "mc-kernel",
            "level_claimed": {"category": level, "text": text, "design_ref": "DESIGN.md section " + ref},
            "level_note": note,
            "technique": technique,
        })
    na = [{"property_id": pid, "reason": extra.get("not_applicable", {}).get(pid, "check not built yet in this session (no claim made); see DESIGN.md section 3 for the planned bounded exploration")}
          for pid in ALL if pid not in table]
    man = {
        "version": 1,
        "setup_cmd": "./setup.sh",
        "hooks": {
            "guard": "PYREFACT_VERIF",
            "enable": "no source hooks are needed: all interception happens from outside at import time (functools.lru_cache substitute, ast.AST.__hash__, builtins.open, multiprocessing.Pool stand-in); checks import pyrefact straight from /repo's working tree",
            "baseline_off_cmd": "cd /repo && /venv/bin/python -m pytest -ra -q -p no:cacheprovider --timeout=900 --continue-on-collection-errors",
            "source_commits": [],
            "add_only": True,
        },
        "engines": [
            {"name": "mc-kernel", "path": "mc/kernel.py", "serves_properties": [c["property_id"] for c in checks],
             "kind_free_text": "hand-written bounded-exhaustive explorer for Python: deterministic enumerators, 16 long-lived workers with owned nondeterminism (hash seed, node hashing, caches, cwd), reference models / interpreter oracles, replay files, known-findings matcher"},
        ],
        "checks": checks,
        "not_applicable": na,
        "notes": "known findings and fixed defects: known/findings.json; mutation results: mutants/RESULTS.md; seeded changes from independent sub-agents: seeded/",
    }
    with open(os.path.join(HERE, "MANIFEST.json"), "w") as f:
        json.dump(man, f, indent=1)
    print("MANIFEST.json: %d checks, %d not_applicable" % (len(checks), len(na)))


if __name__ == "__main__":
    main()
