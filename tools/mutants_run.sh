#!/bin/bash
# tools/mutants_run.sh <glob-prefix> <ID> [<ID>...]: run all mutants/<prefix>*.patch against the checks; one line each
prefix="$1"; shift
for m in /verif/mutants/${prefix}*.patch; do
  res=$(/verif/tools/mutant.sh "$m" "$@" 2>&1)
  tests=$(echo "$res" | grep -E "passed|failed" | head -1)
  det=$(echo "$res" | grep -E "^== " | tr '\n' ' ')
  echo "$(basename $m .patch) | tests: $tests | $det"
done
