#!/bin/bash
# tools/verify_seed.sh <worktree> <ID> <seed-name>: confirm a sub-agent's change independently, then file it under seeded/<seed-name>/
wt="$1"; id="$2"; name="$3"
cd "$wt" || exit 2
demo=$(ls demo_*.py | head -1)
[ -f patch.diff ] || git diff -- pyrefact > patch.diff
git checkout -q -- pyrefact
export PYTHONPATH="$wt"
/venv/bin/python -c "import pyrefact,sys; sys.exit(0 if pyrefact.__file__.startswith('$wt') else 3)" || { echo "wrong package"; exit 2; }
timeout 600 /venv/bin/python "$demo" > /tmp/seed_demo_clean.out 2>&1; rc_clean=$?
git apply patch.diff || { echo "patch does not apply"; exit 2; }
tests=$(/venv/bin/python -m pytest -q -p no:cacheprovider 2>&1 | tail -1)
timeout 600 /venv/bin/python "$demo" > /tmp/seed_demo_mut.out 2>&1; rc_mut=$?
git checkout -q -- pyrefact
echo "clean demo rc=$rc_clean | tests with change: $tests | demo with change rc=$rc_mut"
if [ $rc_clean -eq 0 ] && [ $rc_mut -eq 1 ] && echo "$tests" | grep -q "58 passed"; then
  d=/verif/seeded/$name; mkdir -p $d
  cp patch.diff $d/patch.diff; cp "$demo" $d/; [ -f NOTES.md ] && cp NOTES.md $d/NOTES.md
  tail -5 /tmp/seed_demo_mut.out > $d/demo_output_with_change.txt
  echo "CONFIRMED -> $d"
else
  echo "NOT CONFIRMED"; tail -5 /tmp/seed_demo_clean.out; tail -5 /tmp/seed_demo_mut.out
fi
