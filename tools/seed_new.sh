#!/bin/bash
# tools/seed_new.sh <agent worktree> <ID> <seed-name> [extra checks...]: confirm a sub-agent's change, file it, run the property's
# quick check (and extras) against it in the agent's (clean) worktree, keep the outcome as result_first_run.txt
wt="$1"; id="$2"; name="$3"; shift 3
cd /verif
tools/verify_seed.sh "$wt" "$id" "$name" | tail -3 | tee /tmp/seed_new_$name.txt
grep -q CONFIRMED /tmp/seed_new_$name.txt || exit 1
grep -q "NOT CONFIRMED" /tmp/seed_new_$name.txt && exit 1
[ $# -gt 0 ] && echo "$@" > seeded/$name/extra_checks
MUT_ROOT="$wt" MC_NPROC=${MC_NPROC:-8} tools/seeds_run.sh "$name"
cp seeded/$name/result.txt seeded/$name/result_first_run.txt
cat seeded/$name/result.txt | cut -c1-300
