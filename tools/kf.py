#!/usr/bin/env python3
"""Maintain /verif/known/findings.json (run by hand, reviewed, committed; never run by a check).

  tools/kf.py add --triage FILE --site SITE --kind KIND --id KF-.. --what TEXT [--match REGEX] [--property Cxx]
  tools/kf.py fixed --id FX-.. --property Cxx --commit SHA --what TEXT
  tools/kf.py list
"""
import argparse, json, os, re, sys

HERE = os.path.dirname(os.path.dirname(os.path.abspath(__file__)))
FILE = os.path.join(HERE, "known", "findings.json")


def load():
    return json.load(open(FILE)) if os.path.exists(FILE) else []


def save(entries):
    json.dump(entries, open(FILE, "w"), indent=1)


def main():
    ap = argparse.ArgumentParser()
    sub = ap.add_subparsers(dest="cmd", required=True)
    a = sub.add_parser("add")
    a.add_argument("--triage", required=True); a.add_argument("--site", required=True); a.add_argument("--kind", required=True)
    a.add_argument("--id", required=True); a.add_argument("--what", required=True); a.add_argument("--match"); a.add_argument("--exclude")
    f = sub.add_parser("fixed")
    f.add_argument("--id", required=True); f.add_argument("--property", required=True); f.add_argument("--commit", required=True); f.add_argument("--what", required=True)
    sub.add_parser("list")
    b = sub.add_parser("addall")
    b.add_argument("--triage", required=True); b.add_argument("--prefix", required=True); b.add_argument("--why", required=True)
    b.add_argument("--only-site"); b.add_argument("--only-kind")
    args = ap.parse_args()
    if args.cmd == "addall":
        import hashlib, subprocess
        for g in json.load(open(args.triage)):
            if args.only_site and not re.search(args.only_site, g["site"]):
                continue
            if args.only_kind and not re.search(args.only_kind, g["kind"]):
                continue
            tag = re.sub(r"[^A-Za-z0-9]+", "-", g["site"].split(".")[-1] + "-" + g["kind"]).strip("-")[:60]
            kid = "%s-%s-%s" % (args.prefix, tag, hashlib.sha1((g["site"] + g["kind"]).encode()).hexdigest()[:4])
            what = "%s: %s - %s (e.g. %s)" % (g["site"], g["kind"], args.why, g["whats"][0][:160].replace("\n", "\\n"))
            subprocess.run([sys.argv[0], "add", "--triage", args.triage, "--site", g["site"], "--kind", g["kind"], "--id", kid, "--what", what], check=True)
        return
    entries = load()
    if args.cmd == "list":
        for e in entries:
            n = len(e.get("keys", []))
            if e.get("keys_file"):
                n += sum(1 for _ in open(os.path.join(HERE, "known", e["keys_file"])))
            print("%-6s %-22s %-4s %-45s %-22s %5d  %s" % (e["status"], e["id"], e["property"], e.get("site", ""), e.get("kind", ""), n, e["what"][:70]))
        return
    if args.cmd == "fixed":
        entries = [e for e in entries if e["id"] != args.id]
        entries.append({"id": args.id, "status": "fixed", "property": args.property, "commit": args.commit, "what": args.what,
                        "line": "fixed: property=%s %s %s" % (args.property, args.commit, args.what)})
        save(entries)
        return
    groups = json.load(open(args.triage))
    g = [x for x in groups if x["site"] == args.site and x["kind"] == args.kind]
    if not g:
        sys.exit("no such group in triage file")
    g = g[0]
    items = g["items"]
    if args.match:
        items = [it for it in items if re.search(args.match, it[1])]
    if args.exclude:
        items = [it for it in items if not re.search(args.exclude, it[1])]
    keys = sorted({it[0] for it in items})
    if not keys:
        sys.exit("no keys selected")
    old = [e for e in entries if e["id"] == args.id]
    entries = [e for e in entries if e["id"] != args.id]
    prev = set()
    for e in old:
        prev |= set(e.get("keys", []))
        if e.get("keys_file"):
            prev |= {l.strip() for l in open(os.path.join(HERE, "known", e["keys_file"])) if l.strip()}
    keys = sorted(set(keys) | prev)
    e = {"id": args.id, "status": "open", "property": g["property"], "site": args.site, "kind": args.kind, "what": args.what,
         "example": items[0][1][:300],
         "line": "open: property=%s id=%s site=%s kind=%s what=%s" % (g["property"], args.id, args.site, args.kind, args.what)}
    if len(keys) > 40:
        e["keys_file"] = args.id + ".keys"
        with open(os.path.join(HERE, "known", e["keys_file"]), "w") as f:
            f.write("\n".join(keys) + "\n")
    else:
        e["keys"] = keys
    entries.append(e)
    save(entries)
    print("added %s with %d keys (%d selected now)" % (args.id, len(keys), len(items)))


if __name__ == "__main__":
    main()
